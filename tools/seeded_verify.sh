#!/bin/bash
# Usage: tools/seeded_verify.sh <dir containing patch.diff and demo.py> [--no-suite]
# Confirms, in a fresh scratch worktree of /repo (removed afterwards): the demonstration passes on
# the unmodified code, fails with the patch applied, and the pinned suite's stable tests still pass
# with the patch.  Prints: demo_clean=<rc> demo_patched=<rc> stable_not_passing=<n>
SRC="$1"
[ -f "$SRC/patch.diff" ] && [ -f "$SRC/demo.py" ] || { echo "need patch.diff and demo.py in $SRC"; exit 2; }
WT=$(mktemp -d /tmp/sverify-XXXXXX); rmdir "$WT"
git -C /repo worktree add -q "$WT" HEAD || exit 2
trap 'git -C /repo worktree remove --force "$WT" 2>/dev/null' EXIT
cp "$SRC/demo.py" "$WT/_demo.py"
run_demo() { (cd "$WT" && PYTHONPATH="$WT" PYTHONDONTWRITEBYTECODE=1 timeout 600 /venv/bin/python _demo.py >"$WT/_demo.$1.log" 2>&1; echo $?); }
if grep -q "^def test_" "$SRC/demo.py" && ! grep -q "__main__" "$SRC/demo.py"; then
  run_demo() { (cd "$WT" && PYTHONPATH="$WT" PYTHONDONTWRITEBYTECODE=1 timeout 600 /venv/bin/python -m pytest -q -p no:cacheprovider _demo.py >"$WT/_demo.$1.log" 2>&1; echo $?); }
fi
a=$(run_demo clean)
git -C "$WT" apply "$SRC/patch.diff" || { echo "patch does not apply to HEAD"; exit 2; }
b=$(run_demo patched)
n="skipped"
if [ "$2" != "--no-suite" ]; then
  bl=$(/venv/bin/python "$(dirname "$0")/baseline.py" "$WT"); n=$(echo "$bl" | grep -o "stable_not_passing=[0-9]*" | cut -d= -f2); echo "$bl" | grep "NOT PASSING"
fi
echo "demo_clean=$a demo_patched=$b stable_not_passing=$n"
tail -3 "$WT/_demo.patched.log" | cut -c1-200
