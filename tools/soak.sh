#!/bin/bash
# Usage: tools/soak.sh <seed> <seconds-per-check> [ids...]
# Thorough tier of every claimed check, one after the other; evidence of these runs goes to
# soak/evidence-<seed>/ (the committed evidence/ directory holds the quick-tier runs);
# one summary line per check is appended to soak/summary-<seed>.txt
cd "$(dirname "$0")/.." || exit 2
SEED="$1"; SECS="$2"; shift 2
IDS="$*"
[ -z "$IDS" ] && IDS=$(/venv/bin/python -c "import json;print(' '.join(c['property_id'] for c in json.load(open('MANIFEST.json'))['checks']))")
mkdir -p soak/evidence-$SEED
rc=0
for id in $IDS; do
  out=$(VERIF_SEED=$SEED VERIF_EVIDENCE_DIR=$PWD/soak/evidence-$SEED ./check "$id" --tier thorough --seconds "$SECS" 2>&1)
  code=$?
  echo "$out" | grep -E "^VIOLATION|^HARNESS|^  oracle=|^  detail" | cut -c1-600
  line="$id seed=$SEED exit=$code $(echo "$out" | grep -E "^$id thorough" | cut -c1-400)"
  echo "$line"; echo "$line" >> soak/summary-$SEED.txt
  [ $code -ne 0 ] && rc=1
done
exit $rc
