#!/bin/bash
# Usage: tools/selftest_determinism.sh [n-seeds] [base-seed] [ids...]
# For every claimed check: run n run-seeds twice in one process and once more from the recorded
# choice list (digests must agree), then again in a fresh interpreter under another
# PYTHONHASHSEED; the per-run digests of both interpreters must be identical.
cd "$(dirname "$0")/.." || exit 2
N="${1:-30}"
SEED="${2:-0}"
shift 2 2>/dev/null
IDS="$*"
[ -z "$IDS" ] && IDS=$(/venv/bin/python -c "import json;print(' '.join(c['property_id'] for c in json.load(open('MANIFEST.json'))['checks']))")
OUT=$(mktemp -d /dev/shm/verif-det-XXXXXX)
one() {
  id=$1
  VERIF_SEED=$SEED VERIF_HASHSEED=0 VERIF_DIGEST_OUT=$OUT/$id.h0 ./check "$id" --selftest-determinism "$N" > "$OUT/$id.log0" 2>&1
  a=$?
  VERIF_SEED=$SEED VERIF_HASHSEED=1 VERIF_DIGEST_OUT=$OUT/$id.h1 ./check "$id" --selftest-determinism "$N" > "$OUT/$id.log1" 2>&1
  b=$?
  if cmp -s "$OUT/$id.h0" "$OUT/$id.h1"; then c=same; else c=DIFFERENT; fi
  echo "$id n=$N seed=$SEED in-process(hashseed0)=$a in-process(hashseed1)=$b cross-interpreter=$c $(grep -h '^DETERMINISM' "$OUT/$id.log0" | sed 's/.*all-digest=//' | cut -c1-16)"
  grep -h "^NONDETERMINISTIC" "$OUT/$id.log0" "$OUT/$id.log1" | head -3
}
for id in $IDS; do
  one "$id" &
  # at most 8 checks at a time
  while [ "$(jobs -r | wc -l)" -ge 8 ]; do sleep 1; done
done
wait
rm -rf "$OUT"
