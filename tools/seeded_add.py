#!/usr/bin/env python3
"""
Store a verified seeded change under /verif/seeded/<name>/.
Usage: tools/seeded_add.py <src-dir> <name> <property> <verify-line> <needs> [checks...]
  src-dir      directory with patch.diff, demo.py (and optionally notes.md)
  verify-line  the output line of tools/seeded_verify.sh (demo_clean=.. demo_patched=.. stable_not_passing=..)
  needs        one sentence: what the change needs in order to manifest
  checks       the checks to run against it with tools/seeded_eval.sh (default: the property's own)
"""
import json
import os
import re
import shutil
import subprocess
import sys


def main() -> int:
    src, name, prop, verify, needs = sys.argv[1:6]
    checks = sys.argv[6:] or [prop]
    m = re.search(r"demo_clean=(\d+) demo_patched=(\d+) stable_not_passing=(\w+)", verify)
    if not m or m.group(1) != "0" or m.group(2) == "0" or m.group(3) != "0":
        print("not verified:", verify)
        return 1
    dst = os.path.join("/verif/seeded", name)
    os.makedirs(dst, exist_ok=True)
    for f in ("patch.diff", "demo.py", "notes.md"):
        if os.path.exists(os.path.join(src, f)):
            shutil.copyfile(os.path.join(src, f), os.path.join(dst, f))
    head = subprocess.check_output(["git", "-C", "/repo", "rev-parse", "--short", "HEAD"]).decode().strip()
    files = sorted(set(re.findall(r"^\+\+\+ b/(\S+)", open(os.path.join(dst, "patch.diff")).read(), re.M)))
    meta = {
        "property": prop,
        "breaks": f"{prop} (see notes.md)",
        "files_changed": files,
        "needs_to_manifest": needs,
        "origin": "sub-agent given only the property text and a scratch worktree",
        "verified": {
            "against_repo_commit": head,
            "how": "tools/seeded_verify.sh in a fresh scratch worktree: demo.py on unmodified code, "
                   "demo.py with patch.diff applied, tools/baseline.py (pinned suite) with the patch",
            "demo_exit_unmodified": int(m.group(1)),
            "demo_exit_with_change": int(m.group(2)),
            "stable_tests_not_passing_with_change": int(m.group(3)),
        },
        "checks": checks,
    }
    with open(os.path.join(dst, "meta.json"), "w") as f:
        json.dump(meta, f, indent=1)
    print("stored", dst)
    return 0


if __name__ == "__main__":
    sys.exit(main())
