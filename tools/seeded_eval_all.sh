#!/bin/bash
# Usage: tools/seeded_eval_all.sh [seed] [parallel]   -- runs tools/seeded_eval.sh for every stored change
cd "$(dirname "$0")/.." || exit 2
SEED="${1:-1}"; PAR="${2:-3}"
ls seeded | grep -v "\.md$" | xargs -P "$PAR" -I{} sh -c "VERIF_WORKERS=${VERIF_WORKERS:-5} tools/seeded_eval.sh {} $SEED 2>&1" | grep -v "^KNOWN\|^HARNESS\|^note:" | sort
