#!/bin/bash
# Usage: tools/seeded_eval_all.sh [seed] [parallel]   -- runs tools/seeded_eval.sh for every stored change
# (parallel > 1 divides the cores: detection within the quick budget is then less likely)
cd "$(dirname "$0")/.." || exit 2
SEED="${1:-1}"; PAR="${2:-1}"
ls seeded | grep -v "\.md$\|\.txt$" | xargs -P "$PAR" -I{} sh -c "tools/seeded_eval.sh {} $SEED 2>&1" | grep -v "^KNOWN\|^HARNESS\|^note:" | sort
