#!/usr/bin/env python3
"""Regenerates /verif/MANIFEST.json from the table below (keeps it schema-valid)."""

import json
import os
import sys

HERE = os.path.dirname(os.path.dirname(os.path.abspath(__file__)))

SIM_NOTE = ("Pools, queue arrival order, asyncio thread, clock and uuids are simulated; SQLite, "
            "SQLAlchemy, pickle, CPython and the simulator kit are trusted. Sampling, not proof.")

# id -> (engine, level, technique, level_text, level_note, design_ref)
CLAIMED = {
    "C01": (
        "schedsim", "exploration",
        "deterministic simulation: seeded schedules of generated programs on the real scheduler, "
        "refinement against an executable reference interpreter (outcome sets)",
        "Generated workflow programs (all listed control forms, containers, operators, partial "
        "tasks, defaults, thread/process/async modes) run on the real Scheduler under seeded "
        "completion orders; the outcome must be a member of the outcome set computed by a small "
        "reference interpreter transcribed from the documented reduction rules.",
        SIM_NOTE + " The reference interpreter is part of the trusted base.", "DESIGN.md §4 C01"),
    "C02": (
        "histsim", "exploration",
        "deterministic simulation: seeded edit/revert histories over one backend, each execution "
        "under its own seeded schedule, differential oracle against an empty backend",
        "Histories of up to 6 executions with value-changing edits, version bumps, neutral edits, "
        "reverts, raise toggles and argument changes between executions, on fresh or reused "
        "Scheduler objects, plus an input-file family (File passed positionally / by keyword / "
        "nested / inside a returned expression, ContentFile, Dir) with input rewrites from a "
        "simulated clock; every execution must equal the same program version and file state run "
        "on an empty backend (value or error type).",
        SIM_NOTE, "DESIGN.md §4 C02"),
    "C03": (
        "histsim", "fault_enumeration",
        "deterministic simulation with fault injection: crash at every commit index / transient "
        "SQL errors during recording, recovery, code edit, shallow-cached run; also after record "
        "transfer to a second repository",
        "Per workload every commit of the recording execution is a crash point (complete in the "
        "thorough tier, evenly thinned in quick), plus sampled transient OperationalErrors; after "
        "recovery one task is edited and the shallow-cached execution must equal the edited "
        "program on an empty backend, on the same repository and on one that pulled the records; "
        "subtree-task rows must be closed under the recorded call edges.",
        SIM_NOTE + " Crash = loss of the uncommitted transaction (SQLite atomic commit trusted).",
        "DESIGN.md §4 C03"),
    "C07": (
        "schedsim", "exploration",
        "deterministic simulation: the same program under several seeded schedules and limit "
        "configurations, equality of outcome and recorded call-graph hashes across variants",
        "Each program (generic, and handle-passing with limited tasks) is executed on fresh "
        "backends under 3-4 (schedule, limits) variants from unlimited to fully serial; outcome, "
        "call-node hashes, argument hashes and handle hashes must coincide.",
        SIM_NOTE, "DESIGN.md §4 C07"),
    "C20": (
        "schedsim", "exploration",
        "deterministic simulation: seeded schedules, then a whole-database audit against the "
        "harness's own record of the job tree (independent Merkle recomputation)",
        "After each of 1-2 executions (failures, duplicates, cached replays, apply_tags, prov=False "
        "subtrees) every settled job's Job/CallNode/CallEdge rows are compared with the job tree "
        "the harness observed, call hashes are recomputed with an independent bencode+sha512, "
        "every Value row is deserialized and rehashed, subvalue links and tags are checked, and "
        "PRAGMA foreign_key_check must be empty.",
        SIM_NOTE + " ErrorValue rows are not rehashed (pickled tracebacks).", "DESIGN.md §4 C20"),
    "C22": (
        "histsim", "fault_enumeration",
        "deterministic simulation with fault injection: process death before every commit and "
        "transient OperationalError at sampled statements, recovery runs of the same / an edited "
        "program, referential audit and record conservation",
        "Per workload every commit index of the recording execution is used as a crash point "
        "(complete in thorough, thinned in quick) and sampled statement indices get 1-3 "
        "consecutive OperationalErrors; afterwards references must resolve, the recovery "
        "execution must equal a run on an empty backend, and a retried run must leave the same "
        "records as the fault-free run of the same schedule.",
        SIM_NOTE + " Crash = loss of the uncommitted transaction (SQLite atomic commit trusted).",
        "DESIGN.md §4 C22"),
    "C06": (
        "schedsim", "exploration",
        "deterministic simulation: seeded completion-order search on the real scheduler, "
        "exactly-once oracle over the recorded hand-off history",
        "Seeded search over completion orders of generated duplicate-heavy programs on the real "
        "Scheduler/LocalExecutor/RedunBackendDb; oracle over the recorded history: at most one pool "
        "hand-off per (eval hash, context) among calls that did not opt out, equal outcomes for "
        "twins, one Job per (parent, expression hash).",
        SIM_NOTE, "DESIGN.md §4 C06"),
    "C08": (
        "schedsim", "exploration",
        "deterministic simulation: seeded schedules with shadow resource accounting (conservation "
        "invariant checked after every scheduler event)",
        "Generated programs with list/dict limits, failures, duplicates, cache hits and unknown "
        "executors under seeded completion orders; shadow accounting of units from hand-off to "
        "report, invariants held<=limit and limits_used>=0 after every event, consume/release "
        "exactly once per job, zero at the end of executions that return.",
        SIM_NOTE, "DESIGN.md §4 C08"),
    "C09": (
        "schedsim", "exploration",
        "deterministic simulation: bounded liveness at quiescence under seeded schedules and "
        "feasible limit configurations",
        "Generated programs sharing scarce resources under feasible limits; a run must end within "
        "a step cap, never reach a quiescent state with the workflow pending, and (when it "
        "returns) leave every created job finalized as DONE/CACHED/FAILED.",
        SIM_NOTE + " Async tasks get no limits (hold-and-wait by construction).", "DESIGN.md §4 C09"),
    "C10": (
        "threadsim", "exploration",
        "deterministic simulation of real threads: baton-passing scheduler with line-level "
        "pre-emption (sys.monitoring), virtual time and a scheduling-latency fault; bounded "
        "liveness oracle at quiescence",
        "A submitting thread and the executor's real monitor thread are scheduled one at a time "
        "by a seeded scheduler (PCT-style <= 3 pre-emptions, stress mode, bounded scheduling "
        "latency) against an in-process fake service; at quiescence every submitted job must have "
        "been reported exactly once. Covered executor: DockerExecutor; the AWS Batch, K8S, GCP "
        "Batch and Glue monitors share the pattern but their submit paths are not faked yet.",
        "Thread scheduling, time and the container service are simulated; the scheduler is a "
        "recording stub. Sampling, not proof.", "DESIGN.md §4 C10"),
    "C11": (
        "threadsim", "exploration",
        "deterministic simulation of real threads: baton-passing scheduler with bytecode-level "
        "pre-emption (sys.monitoring INSTRUCTION events), virtual time, scheduling-latency fault; "
        "exactly-once and conservation oracles",
        "Generated job streams are added to the real JobArrayer while its real monitor thread "
        "runs; pre-emption between any two bytecodes of job_array.py; every job must be submitted "
        "exactly once in a homogeneous batch of legal size, on_error must never fire, and after "
        "activity stops num_pending must equal the number of jobs not handed off.",
        "Thread scheduling and time are simulated; submit/on_error are recorders. Sampling, not "
        "proof.", "DESIGN.md §4 C11"),
    "C13": (
        "modelsim", "exploration",
        "seeded operation histories (settle / register orders, raising and re-entrant callbacks) "
        "checked operation by operation against an executable reference promise",
        "Histories of <= 25 operations over <= 16 promises applied to redun.promise.Promise and a "
        "reference promise written from the statement; states, values and per-promise callback "
        "sequences are compared after every operation. One run in four monitors the same "
        "invariants on every promise the real scheduler creates while running a generated program "
        "under a seeded completion schedule. Half of the histories allow re-entrant handlers "
        "(settling or registering from inside a callback, also on the notifying promise itself, "
        "in bursts of several waiting callbacks).",
        "Single-threaded; the reference promise is trusted.", "DESIGN.md §4 C13"),
    "C24": (
        "modelsim", "exploration",
        "seeded add/update/delete histories with injected transient SQL errors against a "
        "key-value set model, checked after every operation",
        "Histories of <= 15 tag operations as issued by `redun tag add/update/rm` on the real "
        "backend (SQLite), optionally with transient OperationalErrors absorbed by db_retry; "
        "current tags (distinct pairs) must equal the model and the TagEdit graph stay acyclic.",
        "Multiplicity of identical current pairs is reported, not asserted.", "DESIGN.md §4 C24"),
    "C25": (
        "modelsim", "exploration",
        "seeded advance/merge/rollback histories against a lineage model (DAG + valid set), "
        "checked after every operation",
        "Histories of <= 20 fork / call / merge / rollback operations shaped like the scheduler's "
        "use of handles, against advance_handle / rollback_handle / is_valid_handle on SQLite; "
        "validity of every known state must equal the model's. Extended histories (deriving from "
        "rolled-back states) are a separate sub-oracle. One case in four is a workflow-level "
        "history: a chain of handle-writing tasks run repeatedly under seeded schedules while "
        "their versions are edited and reverted; a cached result holding a rolled-back state must "
        "not be replayed.",
        "The workflow-level part uses linear chains with consumers; forks and merges are "
        "exercised at backend level only.", "DESIGN.md §4 C25, §11.2"),
    "C12": (
        "schedsim", "exploration",
        "deterministic simulation: seeded schedules over repeated executions on one backend, "
        "oracles over outcome, database rows and execution counters",
        "Programs with one failing leaf at any depth executed 2-3 times on one backend: run raises "
        "the leaf's (type, message), the failing chain is recorded FAILED with ErrorValue call "
        "nodes and end times, nothing is handed off after the root is rejected, and the failing "
        "function runs again in every later execution. One case in four is a targeted family: a "
        "parent fails through one child while its other children still wait for (cached) "
        "argument chains and meet equal jobs elsewhere; run must raise an error a task raised.",
        SIM_NOTE, "DESIGN.md §4 C12"),
    "C30": (
        "modelsim", "exploration",
        "seeded file-operation histories on a real tmpfs with a simulated mtime clock (advance, "
        "stall, jump back) and files vanishing underneath, checked after every operation "
        "against freshly computed hashes",
        "Histories of <= 20 operations per file value class (write/append through File.open, "
        "copy_to, stage/unstage, Dir.mkdir/rmdir, external remove/rewrite/touch, update_hash, "
        "pickle round trip); after every redun-mediated write the hash must equal a fresh "
        "value's hash, is_valid must equal (recorded == fresh), content hashes must change iff "
        "bytes change, and hashing a missing path must not raise.",
        "Local filesystem only; the simulated clock sets mtimes of external writes.",
        "DESIGN.md §4 C30"),
    "C31": (
        "modelsim", "exploration",
        "seeded record/restart/read histories with injected storage faults (lost and torn "
        "offloaded objects) and configuration changes, against a hash->value model",
        "Histories of <= 14 operations over backend configurations (no store / value store with "
        "different thresholds / max_value_size; FileCache-typed values); after every operation "
        "every known hash is read back: present values read back equal with the same hash, lost "
        "objects read as absent, torn objects never as a different value, oversize values are "
        "rejected.",
        "Value store and file cache on local tmpfs.", "DESIGN.md §4 C31"),
    "C37": (
        "modelsim", "exploration",
        "seeded define/redefine/wrap histories through the public API, registry invariants "
        "checked after every operation",
        "Histories of <= 15 definitions (plain, versioned, explicit name collisions, wraps_task "
        "once and twice, redefinition of wrapped names) loaded as real modules; task_hashes must "
        "equal the hashes of the held tasks, every task must be found under its full name, and "
        "wrapper chains must point to registered inner tasks in the wrapper namespace.",
        "Single-threaded module imports.", "DESIGN.md §4 C37"),
    "C04": (
        "histsim", "exploration",
        "deterministic simulation: seeded run / environment-operation histories on a real tmpfs "
        "with a simulated mtime clock, shadow filesystem oracle (replay implies valid)",
        "Workflows writing and returning File / ContentFile / IFile / Dir / FileSet / ContentDir / "
        "IDir values are executed 2-4 times on one backend with deletes, truncations, rewrites, "
        "re-creations and member changes in between; a task that was replayed must have had "
        "unchanged outputs (by the class's notion of validity), no execution may raise, returned "
        "values must be valid and hold the bytes the task writes.",
        SIM_NOTE + " Local filesystem only.", "DESIGN.md §4 C04"),
    "C05": (
        "schedsim", "exploration",
        "deterministic simulation: seeded schedules and execution histories with differing "
        "contexts, refinement against the reference interpreter",
        "Programs calling the same context-reading task with identical arguments under different "
        "update_context overrides and under none (siblings, seq barriers, different parents, "
        "full and shallow validity), 1-3 executions on one backend with differing run contexts; "
        "each outcome must equal the reference interpreter's.",
        SIM_NOTE, "DESIGN.md §4 C05"),
    "C16": (
        "procsim", "exploration",
        "several interpreter nodes with seeded PYTHONHASHSEED and insertion orders must agree on "
        "value hashes (environment nondeterminism, no schedule)",
        "Batches of 400 generated values are rebuilt in 3 fresh interpreter processes with "
        "different hash seeds and set insertion orders; all nodes must compute the same "
        "TypeRegistry hash, the same recorded (serialized) hash, and the same eval/args hashes "
        "for calls taking the value by position, in variadic positions and by keyword.",
        "Thinnest use of the technique: the nondeterminism is the interpreter's hash seed.",
        "DESIGN.md §4 C16"),
    "C21": (
        "schedsim", "exploration",
        "deterministic simulation: seeded schedules, recorded Argument / ArgumentResult rows "
        "checked against the reference interpreter's must/may dataflow sets",
        "For every call first recorded in a run, argument rows must equal what the task received "
        "(positions, keys, value hashes, defaults as keywords) and each argument's upstream links "
        "must contain the calls that flow into it and only calls evaluated within its expression.",
        SIM_NOTE + " Schedule dimension incidental.", "DESIGN.md §4 C21"),
    "C23": (
        "histsim", "exploration",
        "two simulated repositories exchanging records: partial, repeated (duplicated) and "
        "batched transfers, row-level comparison and cache containment on the destination",
        "Repository A gets 1-3 simulated executions plus a tag edit history; subsets of its "
        "executions are pushed to B once, again, then the rest; reachable records must arrive "
        "equal, B must never hold what A lacks, repeats must add nothing, and an edited program "
        "run on B must equal its run on an empty backend.",
        SIM_NOTE + " Interrupted transfers are not injected.", "DESIGN.md §4 C23"),
    "C26": (
        "schedsim", "exploration",
        "deterministic simulation: seeded schedules, refinement against the reference "
        "interpreter's context rules",
        "Job trees with nested update_context overrides, configured + run() contexts and "
        "get_context over dotted paths in bodies and defaults; the outcome must equal the "
        "reference interpreter's (every call carries a unique argument so nothing is shared).",
        SIM_NOTE + " Schedule dimension incidental.", "DESIGN.md §4 C26"),
    "C27": (
        "schedsim", "exploration",
        "deterministic simulation: seeded schedules, option dict observed at executor hand-off "
        "checked against the reference interpreter's precedence model",
        "Job trees with marker options at definition / export / call level (both chaining orders, "
        "expression-valued options, prov=False, run(cache=False), the cache scope itself as an "
        "option at all three levels); the options and the cache scope each job is handed off "
        "with must be among those the reference computes for that (task, arguments).",
        SIM_NOTE + " Schedule dimension incidental.", "DESIGN.md §4 C27"),
    "C28": (
        "histsim", "exploration",
        "deterministic simulation: backend histories (incl. a crashed execution), dry run, then a "
        "real run on a copy of the backend; zero hand-off / zero execution monitors",
        "On empty, fully cached, partially cached (killed execution) and edited backends (programs "
        "include jobs that record no provenance and handle-passing workflows) a dry "
        "run must hand nothing to executors and call no task function; if it completes the real "
        "run returns the same, if it stops early the real run executes at least one function.",
        SIM_NOTE, "DESIGN.md §4 C28"),
    "C32": (
        "procsim", "exploration",
        "scheduler node and worker nodes exchanging scratch files; seeded element order, retries "
        "and stale files; results compared with local calls",
        "Jobs are prepared in single and array form with the real scratch helpers (arrays also as "
        "grouped by the real JobArrayer from interleaved jobs of same-named tasks), worker nodes "
        "run the real oneshot entry point in a seeded order (some twice), results and errors read "
        "back must equal a local call, elements must only touch their own files, job names must "
        "round-trip their hashes, and the real gather_inflight_jobs fed with a fake in-flight "
        "listing must pair evaluation hashes only with the service jobs created for them.",
        "Workers run in-process; no container or cloud service.", "DESIGN.md §4 C32"),
    "C33": (
        "histsim", "exploration",
        "databases produced by simulated executions incl. one killed at a seeded commit; status "
        "filters compared with displayed statuses",
        "On databases with RUNNING (left by a crash), CACHED, FAILED, CSE-failed and DONE jobs, "
        "written under a fine or a coarse (16 ms / 1 s) simulated clock, the "
        "result of every job / execution status filter must equal the set of rows displaying "
        "that status.",
        SIM_NOTE, "DESIGN.md §4 C33"),
    "C38": (
        "schedsim", "exploration",
        "deterministic simulation: parent and sub-schedulers (built by the real subrun task) all "
        "under the simulator on one SQLite file; refinement against direct evaluation",
        "Programs with sub-expressions wrapped in subrun (thread/process executor, new or extended "
        "execution, cache options), executed twice; outcome must equal the reference "
        "interpreter's, sub-jobs must hang under the calling job when the execution is extended, "
        "and the subrun task must never be served from the single-reduction cache. A targeted "
        "family compares sibling subruns with direct evaluation over edit histories, including "
        "runs with caching off after the state the tasks read outside the workflow changed.",
        SIM_NOTE + " Parent/child loops are not interleaved with each other.", "DESIGN.md §4 C38"),
}

NOT_APPLICABLE = {
    "C14": "pure function of a finite structure (bencode injectivity/round trip): no schedule, "
           "clock, fault or interleaving to simulate",
    "C15": "pure function of (signature, arguments): cache-key separation has no schedule, fault "
           "or history; deterministic simulation adds nothing over input generation",
    "C17": "pure function of a task definition: no schedule, fault or history",
    "C18": "pure in-memory function of an expression and its pickle round trip",
    "C19": "pure traversal of a nested value",
    "C29": "pure string construction plus a deterministic subprocess; nothing in the statement "
           "depends on ordering, time or faults",
    "C34": "pure format/parse round trip",
    "C35": "pure config <-> dict round trip",
    "C36": "single-party deterministic upgrade over a finite list of start versions; the "
           "statement says nothing about interruption, so there is no fault or schedule to sample",
}


def main() -> int:
    checks = []
    for pid in sorted(CLAIMED):
        engine, level, technique, text, note, ref = CLAIMED[pid]
        checks.append({
            "property_id": pid,
            "quick_cmd": f"./check {pid} --tier quick",
            "thorough_cmd": f"./check {pid} --tier thorough",
            "evidence_file": f"evidence/{pid}.json",
            "replay_cmd_template": f"./check {pid} --replay {{path}}",
            "engine": engine,
            "level_claimed": {"category": level, "text": text, "design_ref": ref},
            "level_note": note,
            "technique": technique,
        })
    all_ids = [json.loads(l)["id"] for l in open(os.path.join(HERE, "properties.jsonl"))]
    na = []
    for pid in all_ids:
        if pid in CLAIMED:
            continue
        reason = NOT_APPLICABLE.get(pid)
        if reason is None:
            reason = ("check not built yet in this session (planned, see DESIGN.md §4); not "
                      "claimed until it runs clean on the unchanged tree")
        na.append({"property_id": pid, "reason": reason})
    manifest = {
        "version": 1,
        "setup_cmd": "/venv/bin/python -c \"import redun, sqlalchemy, jsonschema; print('ok')\"",
        "hooks": {
            "guard": "REDUN_VERIF",
            "enable": "no hooks in /repo: every seam is a module-attribute patch applied by "
                      "/verif/simkit at run time (redun is an editable install of /repo)",
            "baseline_off_cmd": "cd /repo && /venv/bin/python -m pytest -ra -q -p no:cacheprovider "
                                "--timeout=900 --continue-on-collection-errors",
            "source_commits": [],
            "add_only": True,
        },
        "engines": [
            {"name": "schedsim", "path": "simkit/schedsim.py",
             "serves_properties": sorted(p for p in CLAIMED if CLAIMED[p][0] == "schedsim"),
             "kind_free_text": "real Scheduler + LocalExecutor + SQLite backend under a seeded "
                               "event-arrival simulator (SimQueue, sim pools, virtual-time asyncio loop)"},
            {"name": "histsim", "path": "simkit/histsim.py",
             "serves_properties": sorted(p for p in CLAIMED if CLAIMED[p][0] == "histsim"),
             "kind_free_text": "engine A plus persistence: crash at any commit, transient SQL errors, "
                               "file mutation, code edits between executions, two repositories"},
            {"name": "threadsim", "path": "simkit/threadsim.py",
             "serves_properties": sorted(p for p in CLAIMED if CLAIMED[p][0] == "threadsim"),
             "kind_free_text": "baton-passing real threads with sys.monitoring pre-emption points and "
                               "virtual time for JobArrayer and executor monitor threads"},
            {"name": "modelsim", "path": "simkit/modelsim.py",
             "serves_properties": sorted(p for p in CLAIMED if CLAIMED[p][0] == "modelsim"),
             "kind_free_text": "seeded operation/fault histories against small reference models"},
            {"name": "procsim", "path": "simkit/procsim.py",
             "serves_properties": sorted(p for p in CLAIMED if CLAIMED[p][0] == "procsim"),
             "kind_free_text": "several interpreters / worker nodes exchanging values and scratch files"},
        ],
        "checks": checks,
        "notes": "All checks: ./check <ID> --tier quick|thorough; one VERIF_SEED decides every "
                 "choice; violations are minimised and written to replays/<ID>-<seed>.json; "
                 "known findings are listed in known_findings.json.",
        "not_applicable": na,
    }
    path = os.path.join(HERE, "MANIFEST.json")
    with open(path, "w") as f:
        json.dump(manifest, f, indent=1)
    try:
        import jsonschema

        jsonschema.validate(manifest, json.load(open("/root/.vp/MANIFEST.schema.json")))
        print("MANIFEST.json valid;", len(checks), "checks,", len(na), "not claimed")
    except ImportError:
        print("jsonschema not available; wrote MANIFEST.json unvalidated")
    return 0


if __name__ == "__main__":
    sys.exit(main())
