#!/bin/bash
# Usage: tools/seeded_eval.sh <seeded-name> [seed] [check ids...]
# Runs checks (default: the one named in meta.json "checks", else the property's own) against a
# scratch worktree of /repo with /verif/seeded/<name>/patch.diff applied.  /repo itself is not
# touched; the worktree is removed afterwards.  Prints one line per check:
#   <name> <check> seed=<s> exit=<code> wall=<s> <first VIOLATION/oracle line>
# Evidence of these runs goes to a scratch directory, not to /verif/evidence.
cd "$(dirname "$0")/.." || exit 2
NAME="$1"; SEED="${2:-1}"; shift 2 2>/dev/null
IDS="$*"
D=/verif/seeded/$NAME
[ -f "$D/patch.diff" ] || { echo "no $D/patch.diff"; exit 2; }
if [ -z "$IDS" ]; then
  IDS=$(/venv/bin/python -c "import json;m=json.load(open('$D/meta.json'));print(' '.join(m.get('checks') or [m['property']]))")
fi
WT=$(mktemp -d /tmp/seval-XXXXXX)
rmdir "$WT"
git -C /repo worktree add -q "$WT" HEAD || exit 2
trap 'git -C /repo worktree remove --force "$WT" 2>/dev/null; rm -rf "$EV"' EXIT
git -C "$WT" apply "$D/patch.diff" || { echo "$NAME: patch does not apply"; exit 2; }
EV=$(mktemp -d /dev/shm/verif-sev-XXXXXX)
for id in $IDS; do
  t0=$(date +%s)
  out=$(VERIF_REPO=$WT VERIF_EVIDENCE_DIR=$EV VERIF_SEED=$SEED ./check "$id" --tier quick 2>&1)
  code=$?
  t1=$(date +%s)
  line=$(echo "$out" | grep -E "^  oracle=" | head -1 | cut -c1-160)
  echo "$NAME $id seed=$SEED exit=$code wall=$((t1-t0))s $line"
done
