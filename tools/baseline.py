#!/usr/bin/env python3
"""
Run the repository's pinned test suite (command from /root/.vp/BASELINE.json) and compare
with the list of stable passing tests.  Exit 0 iff every stable test still passes.
Usage: tools/baseline.py [repo_dir]
"""

import json
import os
import subprocess
import sys
import tempfile
import xml.etree.ElementTree as ET


def main() -> int:
    repo = sys.argv[1] if len(sys.argv) > 1 else "/repo"
    base = json.load(open("/root/.vp/BASELINE.json"))
    stable = set(base["stable_pass"])
    fd, xml = tempfile.mkstemp(suffix=".xml", dir="/dev/shm")
    os.close(fd)
    cmd = [
        "/venv/bin/python", "-m", "pytest", "-ra", "-q", "-p", "no:cacheprovider",
        "--timeout=900", "--continue-on-collection-errors", f"--junitxml={xml}",
    ]
    env = dict(os.environ)
    env.pop("REDUN_VERIF", None)
    if repo != "/repo":
        env["PYTHONPATH"] = repo
    p = subprocess.run(cmd, cwd=repo, env=env, stdout=subprocess.PIPE, stderr=subprocess.STDOUT,
                       text=True)
    tail = "\n".join(p.stdout.splitlines()[-3:])
    passed = set()
    tree = ET.parse(xml)
    os.unlink(xml)
    for tc in tree.iter("testcase"):
        name = f"{tc.get('classname')}::{tc.get('name')}"
        bad = any(ch.tag in ("failure", "error", "skipped") for ch in tc)
        if not bad:
            passed.add(name)
    missing = sorted(stable - passed)
    first_missing = list(missing)
    if missing and len(missing) <= 40:
        # Thread-timing tests (executor monitors) fail now and then on a loaded machine: run the
        # ones that did not pass once more on their own before counting them.
        ids = []
        for m in missing:
            mod, name = m.split("::", 1)
            parts = mod.split(".")
            # the junit classname is module[.TestClass]: the longest prefix that is a file
            n = len(parts)
            while n > 1 and not os.path.exists(os.path.join(repo, *parts[:n]) + ".py"):
                n -= 1
            ids.append("/".join(parts[:n]) + ".py::" + "::".join(parts[n:] + [name]))
        fd, xml2 = tempfile.mkstemp(suffix=".xml", dir="/dev/shm")
        os.close(fd)
        subprocess.run(cmd[:-1] + [f"--junitxml={xml2}"] + ids, cwd=repo, env=env,
                       stdout=subprocess.PIPE, stderr=subprocess.STDOUT, text=True)
        try:
            for tc in ET.parse(xml2).iter("testcase"):
                name = f"{tc.get('classname')}::{tc.get('name')}"
                if not any(ch.tag in ("failure", "error", "skipped") for ch in tc):
                    passed.add(name)
        except ET.ParseError:
            pass
        os.unlink(xml2)
        missing = sorted(stable - passed)
        print(f"rerun of {len(first_missing)} not-passing stable tests on their own: "
              f"{len(first_missing) - len(missing)} passed")
    print(tail)
    print(f"stable={len(stable)} passed_now={len(passed)} stable_not_passing={len(missing)}")
    for m in missing[:40]:
        print("  NOT PASSING:", m)
    return 1 if missing else 0


if __name__ == "__main__":
    sys.exit(main())
