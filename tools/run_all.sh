#!/bin/sh
# Usage: tools/run_all.sh [seed] [seconds-per-check]   -- runs every claimed check once, prints a summary
cd "$(dirname "$0")/.." || exit 2
SEED="${1:-0}"
SECS="${2:-}"
IDS=$(/venv/bin/python -c "import json;print(' '.join(c['property_id'] for c in json.load(open('MANIFEST.json'))['checks']))")
rc=0
for id in $IDS; do
  if [ -n "$SECS" ]; then out=$(VERIF_SEED=$SEED ./check "$id" --tier quick --seconds "$SECS" 2>&1); else out=$(VERIF_SEED=$SEED ./check "$id" --tier quick 2>&1); fi
  code=$?
  echo "$out" | grep -E "^VIOLATION|^HARNESS|^  oracle=" | cut -c1-300
  echo "$id exit=$code $(echo "$out" | grep -E "^$id quick" | cut -c1-160)"
  [ $code -ne 0 ] && rc=1
done
exit $rc
