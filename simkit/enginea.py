"""
Engine A driver: run one generated program on the real Scheduler under a simulated
schedule, recording an event history for the oracles.
"""

from __future__ import annotations

import contextlib
import os
from typing import Any, Callable, Optional

from . import schedsim
from .choices import Choices
from .progs import Program, RegistrySnapshot, load_program, unload_program
from .schedsim import SimAbort, SimDeadlock, SimStepCap, World


class JobRec:
    __slots__ = ("id", "task", "task_hash", "parent", "expr_hash", "eval_hash", "args_hash",
                 "context_hash", "handoffs", "consumed", "released", "outcome", "finalized",
                 "was_cached", "call_hash", "created_seq", "settled_seq", "limits", "options",
                 "exec_count", "prov", "cache_scope", "children", "status", "execution_id",
                 "parent_key", "pre_call_hash", "main_resolved", "bound_args", "arg_hashes",
                 "reported_seq", "call_hash_at_report")

    def __init__(self, id: str):
        self.id = id
        self.task = None
        self.task_hash = None
        self.parent = None
        self.expr_hash = None
        self.eval_hash = None
        self.args_hash = None
        self.context_hash = None
        self.handoffs = 0
        self.consumed = []
        self.released = []
        self.outcome = None
        self.finalized = 0
        self.was_cached = False
        self.call_hash = None
        self.created_seq = 0
        self.settled_seq = 0
        self.limits = None
        self.options = None
        self.exec_count = 0
        self.prov = True
        self.cache_scope = None
        self.children = []
        self.status = None
        self.execution_id = None
        self.parent_key = None
        self.pre_call_hash = None
        self.reported_seq = None
        self.call_hash_at_report = None
        self.main_resolved = False
        self.bound_args = None
        self.arg_hashes = None


class Recorder:
    """Recording only; never changes behaviour."""

    def __init__(self, w: World):
        self.w = w
        self.jobs: dict[str, JobRec] = {}
        self.order: list[str] = []
        self.held: dict[str, int] = {}  # shadow accounting of resource units per name
        self.held_by_job: dict[str, dict] = {}
        self.max_held: dict[str, int] = {}
        self.limit_violations: list[tuple] = []
        self.negative_limits: list[tuple] = []
        self.root_settled_seq: Optional[int] = None
        self.handoff_after_root: list[str] = []
        self.callbacks: dict[str, list[Callable]] = {}
        self.env_counter = 0
        self.cur_job: Optional[tuple] = None
        self.collapsed: dict[str, str] = {}  # twin job id -> id of the job it collapsed into
        self.collapsed_under_settled_parent = 0

    def rec(self, job) -> JobRec:
        r = self.jobs.get(job.id)
        if r is None:
            r = JobRec(job.id)
            self.jobs[job.id] = r
            self.order.append(job.id)
        return r


def _val_key(v: Any) -> Any:
    from .refinterp import vkey

    try:
        return vkey(v)
    except Exception:
        return repr(v)


@contextlib.contextmanager
def recording(w: World, rec: Recorder):
    import redun.executors.local as rlocal
    import redun.scheduler as rs

    saved = []

    def wrap(cls, name, maker):
        orig = getattr(cls, name)
        saved.append((cls, name, orig))
        setattr(cls, name, maker(orig))

    def mk_job_init(orig):
        def __init__(self, task, expr, *a, **k):
            # (signature-tolerant: a change to redun's internal signatures must not be mistaken
            # for a property violation nor hide one)
            orig(self, task, expr, *a, **k)
            parent_job = getattr(self, "parent_job", None)
            execution = getattr(self, "execution", None)
            r = rec.rec(self)
            if r.task is not None:
                # extend_run() builds a stand-in Job object with the id of the calling job;
                # it is not a new job
                return
            r.task = task.fullname
            r.task_hash = task.hash
            r.parent = parent_job.id if parent_job is not None else None
            r.parent_key = r.parent
            if parent_job is not None and type(parent_job).__name__ == "JobEnv":
                eid = parent_job.__dict__.get("_verif_env")
                if eid is None:
                    rec.env_counter += 1
                    eid = parent_job.__dict__["_verif_env"] = rec.env_counter
                r.parent_key = f"{r.parent}/env{eid}"
            r.execution_id = execution.id if execution is not None else None
            try:
                r.expr_hash = expr.get_hash()
            except Exception:
                r.expr_hash = None
            r.created_seq = w.event("job-new", r.task, r.parent and r.parent[:8], self.id[:8])
            if parent_job is not None and parent_job.id in rec.jobs:
                rec.jobs[parent_job.id].children.append(self.id)
        return __init__

    def mk_resolve(orig):
        def resolve(self, result, *a, **k):
            r = rec.rec(self)
            r.outcome = ("v", _val_key(result))
            r.was_cached = self.was_cached
            r.call_hash = self.call_hash
            r.eval_hash = self.eval_hash
            r.args_hash = self.args_hash
            r.context_hash = self.context_hash
            r.settled_seq = w.event("job-resolve", r.task, self.id[:8], self.was_cached)
            if self.parent_job is None and rec.root_settled_seq is None:
                rec.root_settled_seq = r.settled_seq
            return orig(self, result, *a, **k)
        return resolve

    def mk_reject(orig):
        def reject(self, error, *a, **k):
            r = rec.rec(self)
            r.outcome = ("e", _val_key(error))
            r.was_cached = self.was_cached
            r.call_hash = self.call_hash
            r.eval_hash = self.eval_hash
            r.args_hash = self.args_hash
            r.context_hash = self.context_hash
            r.settled_seq = w.event("job-reject", r.task, self.id[:8], type(error).__name__)
            if self.parent_job is None and rec.root_settled_seq is None:
                rec.root_settled_seq = r.settled_seq
            return orig(self, error, *a, **k)
        return reject

    def mk_submit(orig):
        def _submit(self, exec_func, job, *xa, **xk):
            r = rec.rec(job)
            r.handoffs += 1
            r.eval_hash = job.eval_hash
            r.args_hash = job.args_hash
            r.context_hash = job.context_hash
            r.options = dict(job.get_options())
            r.prov = job.recording_provenance()
            r.cache_scope = str(job.get_option("cache_scope", None))
            try:
                import inspect

                names = list(inspect.signature(job.task.func).parameters)
                a, kw = job.args
                bound = dict(zip(names, a))
                bound.update(kw)
                r.bound_args = tuple((n, _val_key(bound[n])) for n in names if n in bound)
                reg = self._scheduler.type_registry
                r.arg_hashes = {"pos": [reg.get_hash(x) for x in a],
                                "kw": {k: reg.get_hash(v) for k, v in kw.items()}}
            except Exception:
                r.bound_args = None
            w.event("submit", r.task, job.id[:8], job.eval_hash and job.eval_hash[:8])
            if rec.root_settled_seq is not None:
                rec.handoff_after_root.append(job.id)
            for cb in rec.callbacks.get("submit", []):
                cb(self, job)
            return orig(self, exec_func, job, *xa, **xk)
        return _submit

    def mk_exec_main(orig):
        def _exec_job_main_thread(self, job, *a, **k):
            r = rec.rec(job)
            r.exec_count += 1
            for cb in rec.callbacks.get("exec_main", []):
                cb(self, job)
            prev = rec.cur_job
            rec.cur_job = (job.id, "exec")
            try:
                return orig(self, job, *a, **k)
            finally:
                rec.cur_job = prev
        return _exec_job_main_thread

    def mk_main_thread(kind):
        def maker(orig):
            def wrapper(self, job, *a, **k):
                prev = rec.cur_job
                rec.cur_job = (job.id if job is not None else None, kind)
                try:
                    return orig(self, job, *a, **k)
                finally:
                    rec.cur_job = prev
            return wrapper
        return maker

    def mk_collapse(orig):
        def collapse(self, other_job, *a, **k):
            rec.collapsed[self.id] = other_job.id
            pj = getattr(self, "parent_job", None)
            if pj is not None and getattr(pj, "result_promise", 1) is None:
                rec.collapsed_under_settled_parent += 1
            w.event("collapse", self.id[:8], other_job.id[:8])
            return orig(self, other_job, *a, **k)
        return collapse

    def mk_resolve_main(orig):
        def _resolve_job_main_thread(self, job, *a, **k):
            r = rec.rec(job)
            r.pre_call_hash = job.call_hash
            r.main_resolved = True
            return orig(self, job, *a, **k)
        return _resolve_job_main_thread

    def mk_eval_apply(orig):
        def _evaluate_apply(self, expr, *a, **k):
            parent_job = k.get("parent_job", a[0] if a else None)
            promise = orig(self, expr, *a, **k)
            cbs = rec.callbacks.get("eval_apply")
            if cbs:
                for cb in cbs:
                    cb(self, expr, parent_job, promise)
            return promise
        return _evaluate_apply

    def mk_report(kind):
        def maker(orig):
            def wrapper(self, job, *a, **k):
                if job is not None:
                    seq = w.event("report-" + kind, job.id[:8])
                    r = rec.rec(job)
                    if r.reported_seq is None:
                        # (a job served by the cache / CSE already carries its call hash when it is
                        # reported, i.e. before it is resolved)
                        r.reported_seq = seq
                        r.call_hash_at_report = getattr(job, "call_hash", None)
                    for cb in rec.callbacks.get("report", []):
                        cb(self, job, kind)
                return orig(self, job, *a, **k)
            return wrapper
        return maker

    def current_job_for_limits(sched) -> Optional[str]:
        return getattr(sched, "_verif_cur_job", None)

    def mk_consume(orig):
        def _consume_resources(self, job_limits, *a, **k):
            w.event("consume", tuple(sorted(job_limits.items())))
            if rec.cur_job and rec.cur_job[0] in rec.jobs:
                rec.jobs[rec.cur_job[0]].consumed.append((dict(job_limits), rec.cur_job[1]))
            for cb in rec.callbacks.get("consume", []):
                cb(self, dict(job_limits))
            return orig(self, job_limits, *a, **k)
        return _consume_resources

    def mk_release(orig):
        def _release_resources(self, job_limits, *a, **k):
            w.event("release", tuple(sorted(job_limits.items())))
            if rec.cur_job and rec.cur_job[0] in rec.jobs:
                rec.jobs[rec.cur_job[0]].released.append((dict(job_limits), rec.cur_job[1]))
            out = orig(self, job_limits, *a, **k)
            for cb in rec.callbacks.get("release", []):
                cb(self, dict(job_limits))
            return out
        return _release_resources

    def mk_finalize(orig):
        def _finalize_job(self, job, *a, **k):
            r = rec.rec(job)
            r.finalized += 1
            r.status = job.status
            w.event("finalize", r.task, job.id[:8], job.status)
            return orig(self, job, *a, **k)
        return _finalize_job

    try:
        wrap(rs.Job, "__init__", mk_job_init)
        wrap(rs.Job, "resolve", mk_resolve)
        wrap(rs.Job, "reject", mk_reject)
        wrap(rs.Job, "collapse", mk_collapse)
        wrap(rlocal.LocalExecutor, "_submit", mk_submit)
        wrap(rs.Scheduler, "_exec_job_main_thread", mk_exec_main)
        wrap(rs.Scheduler, "_done_job_main_thread", mk_main_thread("done"))
        wrap(rs.Scheduler, "_reject_job_main_thread", mk_main_thread("reject"))
        wrap(rs.Scheduler, "_resolve_job_main_thread", mk_resolve_main)
        wrap(rs.Scheduler, "_evaluate_apply", mk_eval_apply)
        wrap(rs.Scheduler, "done_job", mk_report("done"))
        wrap(rs.Scheduler, "reject_job", mk_report("reject"))
        wrap(rs.Scheduler, "_consume_resources", mk_consume)
        wrap(rs.Scheduler, "_release_resources", mk_release)
        wrap(rs.Scheduler, "_finalize_job", mk_finalize)
        yield rec
    finally:
        for cls, name, orig in reversed(saved):
            setattr(cls, name, orig)


class RunResult:
    def __init__(self) -> None:
        self.outcome: Optional[tuple] = None  # ("v", value) | ("e", exc) | ("abort", kind)
        self.world: Optional[World] = None
        self.rec: Optional[Recorder] = None
        self.scheduler = None
        self.error: Optional[BaseException] = None


def run_expr(w: World, rec: Recorder, scheduler, expr_fn: Callable[[], Any],
             run_kwargs: Optional[dict] = None) -> RunResult:
    """Run expr_fn() (built inside the installed world) on the given scheduler."""
    from redun.scheduler import DryRunResult

    res = RunResult()
    res.world = w
    res.rec = rec
    res.scheduler = scheduler
    try:
        value = scheduler.run(expr_fn(), **(run_kwargs or {}))
        res.outcome = ("v", value)
    except SimStepCap as e:
        res.outcome = ("abort", "stepcap")
        res.error = e
    except SimDeadlock as e:
        res.outcome = ("abort", "deadlock")
        res.error = e
    except SimAbort as e:
        res.outcome = ("abort", type(e).__name__)
        res.error = e
    except DryRunResult as e:
        res.outcome = ("dry", None)
        res.error = e
    except Exception as e:
        res.outcome = ("e", e)
        res.error = e
    return res


class ProgramSession:
    """
    Loads a generated program as a module, with the task registry restored afterwards.
    """

    def __init__(self, prog: Program, modname: str = "vprog"):
        self.prog = prog
        self.modname = modname
        self.mod = None
        self._snap = RegistrySnapshot()

    def __enter__(self):
        self._snap.__enter__()
        self.mod = load_program(self.prog, schedsim.scratch_dir(), self.modname)
        return self

    def reload(self, prog: Program) -> None:
        """Re-import an edited version of the program under the same module name."""
        if self.mod is not None:
            unload_program(self.mod, self.modname)
        self.prog = prog
        self.mod = load_program(prog, schedsim.scratch_dir(), self.modname)

    def main_expr(self):
        return getattr(self.mod, "t0")(*self.prog.main_args)

    def __exit__(self, *a):
        if self.mod is not None:
            unload_program(self.mod, self.modname)
        self._snap.__exit__(*a)
        return False


def simulate(ch: Choices, prog: Program, *, db_path: Optional[str] = None,
             limits: Optional[dict] = None, run_kwargs: Optional[dict] = None,
             step_cap: int = 20000, policy: Optional[dict] = None,
             session: Optional[ProgramSession] = None,
             setup: Optional[Callable[[World, Recorder, Any], None]] = None,
             context: Optional[dict] = None,
             keep_backend: bool = False, scheduler: Any = None,
             ns: Optional[int] = None, backend_in_config: bool = False) -> RunResult:
    """
    One simulated execution of `prog` on a fresh (or given) backend file.
    """
    from . import proglib

    own_session = session is None
    if db_path is None:
        db_path = schedsim.fresh_db("run.db")
    # uuid namespace: by default distinct for every execution of a case; runs that are to be
    # compared row by row (same schedule on separate fresh backends) pass the same ns.
    w = World(ch, step_cap=step_cap, policy=policy,
              ns=ns if ns is not None else schedsim.next_generation(db_path))
    rec = Recorder(w)
    sess = session or ProgramSession(prog)
    backend = None
    try:
        if own_session:
            sess.__enter__()
        with schedsim.installed(w), recording(w, rec):
            if scheduler is not None:
                # Reuse of a Scheduler object (and its backend) for another execution.
                sched = scheduler
                backend = None
                keep_backend = True
            else:
                backend = schedsim.open_backend(db_path)
                extra = None
                if backend_in_config:
                    # sub-schedulers (subrun) build their backend from the forwarded config
                    extra = {"backend": {"db_uri": f"sqlite:///{db_path}", "automigrate": "False"}}
                sched = schedsim.make_scheduler(
                    backend, limits=limits if limits is not None else prog.limits, context=context,
                    config=extra)
                sched.logger = schedsim.QuietLogger()
            if setup:
                setup(w, rec, sched)
            res = run_expr(w, rec, sched, sess.main_expr, run_kwargs)
            res.backend = sched.backend
            res.db_path = db_path
            return res
    finally:
        if backend is not None and not keep_backend:
            schedsim.close_backend(backend)
        if own_session:
            sess.__exit__(None, None, None)
