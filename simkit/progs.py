"""
Workflow program generator.

A program is a list of task definitions t0..tn-1 (t0 = main); bodies are small ASTs
(tuples) over a workflow language.  `emit()` turns a program into the source of a real
Python module that uses the redun API; `refinterp.py` evaluates the same AST directly by
the documented reduction rules.  Tasks only call higher-numbered tasks, so every
program terminates.

Node forms (all tuples):
  ("lit", value)                       python literal (may contain P(...) / D(...))
  ("par", name)                        parameter of the enclosing task
  ("call", tidx, [args], [(kw, node)], opts)   opts: dict with optional keys
                                       "options": {..}  -> t.options(**)
                                       "ctx": {..}      -> t.update_context({..})
                                       "partial": k     -> t.partial(first k args)(rest)
  ("list", [n..]) ("tuple", [n..]) ("dict", [(key, n)..]) ("nt", [x, y]) ("dc", [x, y])
  ("set", [n..])
  ("op", sym, a, b)                    sym in + - * / == < & |
  ("idx", n, i)  ("attr", n, name)
  ("cond", c, a, b)
  ("seq", [n..])
  ("catch", n, errname, recover_tidx)
  ("catchall", [n..], errname, recover_tidx | None)
  ("map", tidx, n)  ("flatmap", tidx, n)
  ("applyf", fname, [n..])             apply_func(helper, *args)
  ("forkjoin", n)                      join_thread(fork_thread(n))
  ("tags", n, [(k, v)..], kind)        apply_tags(n, tags= / job_tags= / execution_tags=)
  ("mix", tag, [n..])                  eager helper, only over params / literals
  ("errcode", n)                       eager helper over a param holding an exception
  ("getctx", path, default)            get_context(path, default)
  ("noprov", n)                        no_prov(n)
  ("subrun", n, opts)                  subrun(n, executor=..., new_execution=..., ...)
"""

from __future__ import annotations

import hashlib
import importlib.util
import os
import sys
from typing import Any, Optional

from .choices import Choices
from .proglib import D, P

INT_KINDS = ("int",)
OPT_KEYS = ("oa", "ob", "oc")


class Raw(str):
    """A piece of source text used as an option value (its repr is the text itself)."""

    def __repr__(self) -> str:
        return str(self)


# the cache scope as the documented strings and as the enum members
SCOPES = ("NONE", "CSE", "BACKEND",
          Raw("CacheScope.NONE"), Raw("CacheScope.CSE"), Raw("CacheScope.BACKEND"))
KINDS = ("int", "list", "tuple", "dict", "nt", "dc")

ALL_FEATURES = {
    "containers", "ops", "cond", "seq", "catch", "catchall", "map", "applyf", "forkjoin",
    "tags", "partial", "defaults", "errors", "process", "async", "kwargs", "dups", "sets",
}


class TaskDef:
    def __init__(self, idx: int):
        self.idx = idx
        self.name = f"t{idx}"
        self.params: list[tuple[str, str, Any]] = []  # (name, kind, default node | None)
        self.ret: str = "int"
        self.body: Any = None  # node
        self.awaits: list[tuple[str, Any]] = []  # async only: (var, node) awaited in order
        # "lets" feature: local variables holding a lazy expression that the body uses several
        # times (the *same* expression object as a direct term and inside staged forms)
        self.lets: list[tuple[str, Any]] = []
        self.is_async = False
        self.options: dict[str, Any] = {}  # decorator options (executor, limits, cache...)
        self.raises: Optional[tuple[str, str]] = None  # (error class name, message)
        self.leaf = False
        self.recover = False  # takes an error (or a list containing errors)
        self.version: Optional[str] = None
        self.body_salt = 0  # neutral edit marker (changes the source text only)
        self.def_export: dict[str, Any] = {}  # @task(export_options={...})

    def sig(self) -> str:
        return f"{self.name}({', '.join(p[0] for p in self.params)})"


class Program:
    def __init__(self) -> None:
        self.tasks: list[TaskDef] = []
        self.namespace = "vp"
        self.main_args: list[Any] = []  # literal values for main's params
        self.features: set[str] = set()
        self.limits: dict[str, int] = {}
        self.meta: dict[str, Any] = {}

    def key(self) -> str:
        return hashlib.sha256(emit(self).encode()).hexdigest()[:16]


# ---------------------------------------------------------------------------
# Literal values
# ---------------------------------------------------------------------------


def gen_int(ch: Choices) -> int:
    return ch.choice(7, "int")


def gen_scalar(ch: Choices) -> Any:
    k = ch.choice(8, "scalar")
    if k <= 3:
        return gen_int(ch)
    if k == 4:
        return ["", "a", "bc", "x y"][ch.choice(4, "str")]
    if k == 5:
        return None
    if k == 6:
        return bool(ch.choice(2, "bool"))
    return [0.5, 1.0, 2.0, 0.0][ch.choice(4, "float")]  # (some equal an int literal)


def gen_value(ch: Choices, kind: str, depth: int = 0, sets: bool = False) -> Any:
    """A literal of the given kind."""
    def leaf():
        if depth < 2 and ch.coin(0.2, "nest"):
            k = KINDS[1 + ch.choice(len(KINDS) - 1, "nest-kind")]
            return gen_value(ch, k, depth + 1, sets)
        return gen_scalar(ch) if ch.coin(0.3, "scalar") else gen_int(ch)

    if kind == "int":
        return gen_int(ch)
    if kind == "list":
        return [leaf() for _ in range(1 + ch.choice(3, "len"))]
    if kind == "tuple":
        return tuple(leaf() for _ in range(1 + ch.choice(3, "len")))
    if kind == "dict":
        keys = ["a", "b", "c"][: 1 + ch.choice(3, "len")]
        return {k: leaf() for k in keys}
    if kind == "nt":
        return P(leaf(), leaf())
    if kind == "dc":
        return D(leaf(), leaf())
    if kind == "set":
        return {gen_int(ch) for _ in range(1 + ch.choice(3, "len"))}
    raise ValueError(kind)


def lit_src(v: Any) -> str:
    """Python source for a literal value."""
    if isinstance(v, D):
        return f"D({lit_src(v.x)}, {lit_src(v.y)})"
    if isinstance(v, P):
        return f"P({lit_src(v.x)}, {lit_src(v.y)})"
    if isinstance(v, list):
        return "[" + ", ".join(lit_src(x) for x in v) + "]"
    if isinstance(v, tuple):
        return "(" + ", ".join(lit_src(x) for x in v) + ("," if len(v) == 1 else "") + ")"
    if isinstance(v, dict):
        return "{" + ", ".join(f"{lit_src(k)}: {lit_src(x)}" for k, x in v.items()) + "}"
    if isinstance(v, frozenset):
        return "frozenset({" + ", ".join(lit_src(x) for x in sorted(v, key=repr)) + "})"
    if isinstance(v, set):
        if not v:
            return "set()"
        return "{" + ", ".join(lit_src(x) for x in sorted(v, key=repr)) + "}"
    return repr(v)


# ---------------------------------------------------------------------------
# Generator
# ---------------------------------------------------------------------------


class GenConfig:
    def __init__(self, **kw: Any):
        self.max_tasks = 8
        self.max_depth = 3  # expression nesting inside one body
        self.max_fanout = 3
        self.features: set[str] = set(ALL_FEATURES)
        self.p_error = 0.0  # probability that the program has one failing leaf
        # classes a failing leaf may raise ("ErrRes": carries an object pickle refuses)
        self.error_classes = ("ValueError", "KeyError", "ErrA", "ErrB")
        self.multi_error = False
        self.modes = ("thread",)  # executor modes available
        self.limit_names: tuple[str, ...] = ()
        self.p_limit = 0.0
        self.dict_limits = False
        self.p_dup = 0.0
        self.task_options: list[dict] = []  # extra decorator option dicts to sprinkle
        self.p_task_option = 0.0
        self.call_options: list[dict] = []
        self.p_call_option = 0.0
        self.allow_uncaught_error = True
        self.min_tasks = 2
        self.opt_mode = False  # generate marker options at definition / call / export level
        self.ctx_mode = None  # None | "unique" (every call gets a unique extra argument)
        self.p_ctx = 0.35  # probability that a call carries update_context overrides
        for k, v in kw.items():
            assert hasattr(self, k), k
            setattr(self, k, v)


class Gen:
    def __init__(self, ch: Choices, cfg: GenConfig):
        self.ch = ch
        self.cfg = cfg
        self.prog = Program()
        self.closed_calls: dict[str, list[Any]] = {}  # kind -> closed call nodes (for dups)
        self.f = set(cfg.features)
        self.unique = 0

    def has(self, feat: str) -> bool:
        return feat in self.f

    # -- program ------------------------------------------------------------
    def generate(self) -> Program:
        ch, cfg = self.ch, self.cfg
        n = cfg.min_tasks + ch.choice(cfg.max_tasks - cfg.min_tasks + 1, "ntasks")
        prog = self.prog
        prog.features = set(self.f)
        # Swarm: drop a random subset of features per program.
        for feat in sorted(self.f):
            if ch.coin(0.3, "drop-" + feat):
                self.f.discard(feat)
        # Signatures first (bodies refer to higher-numbered tasks).
        n_leaf = max(1, n // 3)
        for i in range(n):
            t = TaskDef(i)
            prog.tasks.append(t)
            t.leaf = i >= n - n_leaf
            nparams = 1 + ch.choice(2, "nparams") if i else ch.choice(2, "nparams-main")
            kinds = ["int"] + (list(KINDS) if self.has("containers") else [])
            for j in range(nparams):
                kind = "int" if ch.coin(0.7, "pkind") else kinds[ch.choice(len(kinds), "pkind2")]
                t.params.append((chr(ord("a") + j), kind, None))
            if cfg.ctx_mode == "unique" and i:
                t.params.insert(0, ("u", "uniq", None))
            t.ret = "int" if (i == 0 or ch.coin(0.6, "ret")) else kinds[ch.choice(len(kinds), "ret2")]
            # executor mode
            modes = list(cfg.modes)
            m = modes[ch.choice(len(modes), "mode")]
            if m == "process":
                t.options["executor"] = "process"
            elif m == "async" and not t.leaf and i != 0:
                t.is_async = True
                t.options["cache"] = False
            # limits
            # (async tasks hold their units while awaiting children: hold-and-wait by
            # construction, so they get no limits in generated programs)
            if cfg.limit_names and not t.is_async and ch.coin(cfg.p_limit, "limit?"):
                names = [x for x in cfg.limit_names if ch.coin(0.6, "lim-name")] or [cfg.limit_names[0]]
                if cfg.dict_limits and ch.coin(0.4, "dict-limits"):
                    t.options["limits"] = {x: 1 + ch.choice(2, "lim-count") for x in names}
                else:
                    t.options["limits"] = list(names)
            if cfg.opt_mode and i:
                for key in OPT_KEYS:
                    if ch.coin(0.25, "def-opt"):
                        t.options[key] = 100 + ch.choice(3, "def-opt-val")
                if ch.coin(0.2, "def-export"):
                    t.def_export = {OPT_KEYS[ch.choice(len(OPT_KEYS), "def-export-key")]:
                                    200 + ch.choice(3, "def-export-val")}
                if ch.coin(0.1, "def-prov-false"):
                    t.options["prov"] = False
                if ch.coin(0.2, "def-cache-scope"):
                    t.options["cache_scope"] = SCOPES[ch.choice(6, "def-cache-scope-val")]
            if cfg.task_options and ch.coin(cfg.p_task_option, "topt?"):
                t.options.update(cfg.task_options[ch.choice(len(cfg.task_options), "topt")])
        # Special recover tasks are appended on demand.
        # A failing leaf.
        leaves = [t for t in prog.tasks if t.leaf]
        if self.has("errors") and ch.coin(cfg.p_error, "has-error"):
            k = 1 + (ch.choice(2, "nerr") if cfg.multi_error else 0)
            for _ in range(k):
                t = leaves[ch.choice(len(leaves), "err-leaf")]
                en = cfg.error_classes[ch.choice(len(cfg.error_classes), "err-cls")]
                t.raises = (en, f"boom-{t.name}")
                if en == "ErrRes":
                    # (a process worker could not even send this error back: thread mode)
                    t.options.pop("executor", None)
        # Defaults (expression-valued) on some non-main tasks.
        if self.has("defaults"):
            for t in prog.tasks[1:]:
                if t.leaf and ch.coin(0.3, "default?") and t.params and t.params[-1][1] != "uniq":
                    name, kind, _ = t.params[-1]
                    if self.has("ctx") and kind == "int" and ch.coin(0.5, "default-getctx"):
                        t.params[-1] = (name, kind, self.gen_getctx())
                        continue
                    higher = [u for u in prog.tasks[t.idx + 1 :] if u.ret == kind and not u.raises]
                    if higher and ch.coin(0.5, "default-expr"):
                        u = higher[ch.choice(len(higher), "default-task")]
                        node = self.gen_call(u, [], depth=self.cfg.max_depth, closed=True)
                    else:
                        node = ("lit", gen_value(ch, kind))
                    t.params[-1] = (name, kind, node)
        # Bodies, from the last task backwards so callee facts are known.
        for t in reversed(prog.tasks):
            self.gen_body(t)
        prog.main_args = [gen_value(ch, kind) for (_, kind, _) in prog.tasks[0].params]
        if cfg.limit_names:
            demand: dict[str, int] = {}
            for t in prog.tasks:
                lim = t.options.get("limits")
                if isinstance(lim, list):
                    lim = {x: 1 for x in lim}
                for x, c in (lim or {}).items():
                    demand[x] = max(demand.get(x, 0), c)
            for x in cfg.limit_names:
                need = demand.get(x, 0)
                if need > 1 or ch.coin(0.7, "limit-configured"):
                    # feasible: capacity is at least the largest single demand
                    prog.limits[x] = max(1, need) + ch.choice(2, "limit-cap")
        return prog

    # -- bodies ---------------------------------------------------------------
    def gen_body(self, t: TaskDef) -> None:
        env = [(p[0], p[1]) for p in t.params]
        if t.leaf:
            core = ("mix", t.name, [("par", p[0]) for p in t.params])
            t.body = self.wrap_kind(core, t.ret, env)
            return
        if t.is_async:
            n = 1 + self.ch.choice(2, "nawait")
            for k in range(n):
                var = f"v{k}"
                node = self.gen_expr("int", env, t, 1)
                if not is_lazy_top(node):
                    node = ("applyf", "hsum", [node])
                t.awaits.append((var, node))
                env = env + [(var, "int")]
            t.body = self.gen_expr(t.ret, env, t, 1)
            return
        if self.has("lets") and self.ch.coin(0.45, "lets?"):
            for k in range(1 + self.ch.choice(2, "nlets")):
                var = f"x{k}"
                node = self.gen_expr("int", env, t, 1)
                if not is_lazy_top(node):
                    node = ("applyf", "hsum", [node])
                t.lets.append((var, node))
                env = env + [(var, "int")]
        t.body = self.gen_expr(t.ret, env, t, 0)
        if t.lets and t.ret == "int" and self.has("ops") and self.has("seq"):
            # use the last variable as a direct term and again inside a staged form that is
            # entered after something else finished
            v = ("par", t.lets[-1][0])
            first = ("par", t.lets[0][0]) if len(t.lets) > 1 else self.gen_arg("int", env, t, 1)
            shape = self.ch.choice(5, "let-shape")
            raising = [u.raises[0] for u in self.prog.tasks if u.raises]
            if shape >= 3 and self.has("catch") and self.has("errors") and raising:
                # the variable's failure is swallowed by a catch, then the same expression is
                # needed again by a later stage of the same job: it must fail again
                en = raising[self.ch.choice(len(raising), "let-catch-cls")]
                rec = self.recover_task("int", single=True)
                caught = ("catch", v, en, rec.idx)
                if shape == 3:
                    staged = ("idx", ("seq", [caught, v]), 1)
                else:
                    staged = ("cond", ("op", "<", caught, ("lit", 0)), ("lit", 1), v)
                # (often alone: another failing term of the body would mask what the staged
                # form yields)
                t.body = staged if self.ch.coin(0.6, "let-catch-alone") else \
                    ("op", "+", t.body, staged)
                return
            if shape >= 3:
                shape = 0
            if shape == 0:
                staged = ("idx", ("seq", [first, v, v]), 2)
            elif shape == 1 and self.has("cond"):
                staged = ("cond", first, ("cond", v, v, ("lit", 0)), v)
            else:
                staged = ("idx", ("list", [v, ("idx", ("seq", [first, v]), 1)]), 0)
            t.body = ("op", "+", ("op", "+", v, t.body), staged)
        if not self.contains_call(t.body):
            # Make sure non-leaf tasks call something.
            callee = self.pick_callee(t, "int")
            if callee is not None:
                c = self.gen_call(callee, env, 1, owner=t)
                if t.ret == "int":
                    t.body = ("op", "+", c, t.body) if self.has("ops") else c
                else:
                    t.body = self.wrap_kind(c, t.ret, env)

    def wrap_kind(self, core: Any, kind: str, env: list) -> Any:
        """Build a value of `kind` around an int node."""
        ch = self.ch
        if kind == "int":
            return core
        other = ("lit", gen_int(ch))
        if kind == "list":
            return ("list", [core, other])
        if kind == "tuple":
            return ("tuple", [core, other])
        if kind == "dict":
            return ("dict", [("a", core), ("b", other)])
        if kind == "nt":
            return ("nt", [core, other])
        if kind == "dc":
            return ("dc", [core, other])
        raise ValueError(kind)

    def contains_call(self, node: Any) -> bool:
        if not isinstance(node, tuple):
            return False
        if node[0] in ("call", "map", "flatmap", "applyf", "catch", "catchall", "subrun"):
            return True
        return any(self.contains_call(x) for x in _children(node))

    def pick_callee(self, owner: TaskDef, kind: str) -> Optional[TaskDef]:
        cands = [u for u in self.prog.tasks[owner.idx + 1 :] if u.ret == kind and not u.recover]
        if not cands:
            return None
        return cands[self.ch.choice(len(cands), "callee")]

    def gen_arg(self, kind: str, env: list, owner: Optional[TaskDef], depth: int) -> Any:
        ch = self.ch
        pars = [n for (n, k) in env if k == kind]
        r = ch.choice(10, "arg")
        if pars and r < 4:
            return ("par", pars[ch.choice(len(pars), "arg-par")])
        if owner is not None and depth < self.cfg.max_depth and r < 7:
            return self.gen_expr(kind, env, owner, depth + 1)
        return ("lit", gen_value(ch, kind))

    def gen_call(self, callee: TaskDef, env: list, depth: int, owner: Optional[TaskDef] = None,
                 closed: bool = False) -> Any:
        ch = self.ch
        args = []
        kwargs = []
        nparams = len(callee.params)
        # sometimes every argument is passed by keyword, written in any order
        all_kw = self.has("kwargs") and ch.coin(0.2, "all-kw")
        for j, (pname, pkind, pdefault) in enumerate(callee.params):
            if pkind == "uniq":
                self.unique += 1
                args.append(("lit", 1000 + self.unique))
                continue
            if pdefault is not None and j == nparams - 1 and ch.coin(0.5, "use-default"):
                continue  # rely on the default
            if closed:
                node = ("lit", gen_value(ch, pkind))
            else:
                node = self.gen_arg(pkind, env, owner, depth)
            if all_kw or (self.has("kwargs") and j == nparams - 1 and ch.coin(0.3, "as-kw")):
                kwargs.append((pname, node))
            else:
                args.append(node)
        if len(kwargs) > 1 and ch.coin(0.6, "kw-order"):
            kwargs.reverse()
        opts: dict[str, Any] = {}
        if self.has("partial") and len(args) >= 1 and not kwargs and ch.coin(0.15, "partial?"):
            opts["partial"] = 1 + ch.choice(len(args), "partial-k") if len(args) > 1 else 1
        if self.has("ctx") and ch.coin(self.cfg.p_ctx, "ctx?"):
            opts["ctx"] = self.gen_ctx()
            if ch.coin(0.3, "ctx-chained"):
                # t.update_context(A).update_context(B): the effective override is the deep
                # merge of both (opts["ctx"]); the source shows the chain
                from .refinterp import merge_dicts

                a, b = opts["ctx"], self.gen_ctx()
                if isinstance(a.get("n"), dict) and ch.coin(0.7, "ctx-chain-same-mapping"):
                    # both overrides reach into the same nested mapping with different keys
                    other = "q" if "p" in a["n"] else "p"
                    b = {"n": {other: 10 + ch.choice(5, "ctx-val")}}
                elif isinstance(a.get("m"), dict) and ch.coin(0.7, "ctx-chain-same-mapping"):
                    b = {"m": {"t": 10 + ch.choice(5, "ctx-val")}}
                opts["ctx_chain"] = [a, b]
                opts["ctx"] = merge_dicts([a, b])
        if self.cfg.opt_mode and not opts.get("partial"):
            def optval():
                if owner is not None and ch.coin(0.2, "opt-expr"):
                    cands = [u for u in self.prog.tasks[callee.idx + 1:]
                             if u.ret == "int" and not u.recover and not u.raises]
                    if cands:
                        u = cands[ch.choice(len(cands), "opt-expr-task")]
                        return self.gen_call(u, [], self.cfg.max_depth, closed=True)
                return ("lit", 300 + ch.choice(4, "opt-val"))
            if ch.coin(0.35, "call-opt?"):
                opts["options"] = {OPT_KEYS[ch.choice(3, "call-opt-key")]: optval()}
            if ch.coin(0.3, "call-export?"):
                opts["export"] = {OPT_KEYS[ch.choice(3, "call-export-key")]: optval()}
                if opts.get("options") and ch.coin(0.5, "export-first"):
                    opts["export_first"] = True
            if ch.coin(0.15, "call-cache-scope?"):
                # the cache scope as one more option set at call time or exported at call time
                grp = "options" if ch.coin(0.6, "call-cache-scope-as-option") else "export"
                opts.setdefault(grp, {})["cache_scope"] = SCOPES[ch.choice(6, "call-cache-scope-val")]
        if self.cfg.call_options and ch.coin(self.cfg.p_call_option, "copt?"):
            opts["options"] = dict(self.cfg.call_options[ch.choice(len(self.cfg.call_options), "copt")])
        node = ("call", callee.idx, args, kwargs, opts)
        if all(_is_closed(a) for a in args) and all(_is_closed(a) for _, a in kwargs):
            self.closed_calls.setdefault(callee.ret, []).append(node)
        return node

    def gen_expr(self, kind: str, env: list, owner: TaskDef, depth: int) -> Any:
        """A (usually lazy) expression of the given kind usable in owner's body."""
        ch, cfg = self.ch, self.cfg
        prods = ["call", "call", "call"]
        deep = depth >= cfg.max_depth
        if self.has("dups") and self.closed_calls.get(kind) and ch.coin(cfg.p_dup, "dup?"):
            cands = [c for c in self.closed_calls[kind] if c[1] > owner.idx]
            if cands:
                node = cands[ch.choice(len(cands), "dup-pick")]
                if self.has("ctx") and ch.coin(0.6, "dup-other-ctx"):
                    # the same call under another (or no) context override
                    opts = dict(node[4])
                    if ch.coin(0.4, "dup-no-ctx"):
                        opts.pop("ctx", None)
                        opts.pop("ctx_chain", None)
                    else:
                        opts["ctx"] = self.gen_ctx()
                        opts.pop("ctx_chain", None)
                    node = (node[0], node[1], node[2], node[3], opts)
                return node
        if not deep:
            if kind == "int":
                if self.has("ops"):
                    prods += ["op", "op"]
                if self.has("containers"):
                    prods += ["idx"]
                if self.has("applyf"):
                    prods += ["applyf"]
            if self.has("ctx") and kind == "int":
                prods += ["getctx", "getctx"]
            if self.has("cond"):
                prods += ["cond"]
            if self.has("catch") and self.has("errors"):
                prods += ["catch"]
            if self.has("forkjoin"):
                prods += ["forkjoin"]
            if self.has("tags"):
                prods += ["tags"]
            if self.has("noprov"):
                prods += ["noprov"]
            if self.has("subrun"):
                prods += ["subrun", "subrun"]
            if kind == "list":
                if self.has("seq"):
                    prods += ["seq"]
                if self.has("map"):
                    prods += ["map", "map"]
                if self.has("catchall") and self.has("errors"):
                    prods += ["catchall"]
                prods += ["build"]
            if kind in ("tuple", "dict", "nt", "dc"):
                prods += ["build", "build"]
        p = prods[ch.choice(len(prods), "prod")]

        if p == "call":
            callee = self.pick_callee(owner, kind)
            if callee is None:
                # No task returns this kind: build it from an int call, or a literal.
                icallee = self.pick_callee(owner, "int")
                if icallee is None:
                    pars = [n for (n, k) in env if k == kind]
                    if pars:
                        return ("par", pars[0])
                    return ("lit", gen_value(ch, kind))
                core = self.gen_call(icallee, env, depth + 1, owner)
                return self.wrap_kind(core, kind, env)
            return self.gen_call(callee, env, depth + 1, owner)
        if p == "getctx":
            return self.gen_getctx()
        if p == "op":
            sym = ["+", "-", "*", "==", "<", "&", "|", "/"][ch.choice(8, "op")]
            a = self.gen_expr("int", env, owner, depth + 1)
            b = self.gen_arg("int", env, owner, depth + 1)
            if sym == "/":
                # keep divisors away from zero most of the time
                b = ("lit", 1 + gen_int(ch)) if not ch.coin(0.1, "div0") else ("lit", 0)
                if b == ("lit", 0) and not is_lazy_top(a):
                    # `0 / 0` between plain values is evaluated by Python while the task body
                    # builds its result (whatever branch it sits in); only a lazy division can
                    # fail lazily
                    b = ("lit", 1)
            if ch.coin(0.3, "reverse") and sym not in ("/",):
                a, b = b, a
            if sym in ("&", "|", "==", "<") and not (is_lazy_top(a) or is_lazy_top(b)):
                sym = "+"
            return ("op", sym, a, b)
        if p == "idx":
            ck = ["list", "tuple", "dict", "nt", "dc"][ch.choice(5, "idx-kind")]
            c = self.gen_expr(ck, env, owner, depth + 1)
            if not self.contains_call(c):
                callee = self.pick_callee(owner, "int")
                if callee is None:
                    return ("lit", gen_int(ch))
                return self.gen_call(callee, env, depth + 1, owner)
            if ck in ("list", "tuple"):
                return ("idx", c, 0)
            if ck == "dict":
                return ("idx", c, "a")
            return ("attr", c, "x")
        if p == "applyf":
            n = 1 + ch.choice(2, "nargs")
            return ("applyf", "hsum", [self.gen_arg("int", env, owner, depth + 1) for _ in range(n)])
        if p == "cond":
            c = self.gen_expr("int", env, owner, depth + 1)
            a = self.gen_expr(kind, env, owner, depth + 1)
            b = self.gen_arg(kind, env, owner, depth + 1)
            if ch.coin(0.5, "cond-cmp"):
                c = ("op", "<", c, ("lit", 500000))
            if self.has("condn") and ch.coin(0.45, "cond-multi-clause"):
                # cond(c1, a1, c2, a2, ..., otherwise): emitted as one multi-clause call; its
                # meaning is that of the nested conditionals held here
                c2 = self.gen_arg("int", env, owner, depth + 1)
                if ch.coin(0.5, "cond2-cmp"):
                    c2 = ("op", "<", c2, ("lit", [0, 500000][ch.choice(2, "cond2-bound")]))
                a2 = self.gen_arg(kind, env, owner, depth + 1)
                return ("cond", c, a, ("cond", c2, a2, b), "flat")
            return ("cond", c, a, b)
        if p == "catch":
            inner = self.gen_expr(kind, env, owner, depth + 1)
            en = ["ValueError", "KeyError", "ErrA", "ErrB"][ch.choice(4, "catch-cls")]
            rec = self.recover_task(kind, single=True)
            return ("catch", inner, en, rec.idx)
        if p == "forkjoin":
            return ("forkjoin", self.gen_expr(kind, env, owner, depth + 1))
        if p == "noprov":
            return ("noprov", self.gen_expr(kind, env, owner, depth + 1))
        if p == "subrun":
            inner = self.gen_expr(kind, env, owner, depth + 1)
            opts = {"executor": ["default", "process"][ch.choice(2, "subrun-executor")],
                    "new_execution": bool(ch.choice(2, "subrun-new-exec"))}
            k = ch.choice(4, "subrun-cache")
            if k == 1:
                opts["cache_scope"] = "NONE"
            elif k == 2:
                opts["cache_scope"] = "CSE"
            if ch.coin(0.35, "subrun-limits"):
                # the subrun's root job competes for a scarce resource: sibling subruns queue up
                # and restart from the pending-limits queue
                opts["limits"] = ["sr"]
                self.prog.limits["sr"] = 1
            return ("subrun", inner, opts)
        if p == "tags":
            inner = self.gen_expr(kind, env, owner, depth + 1)
            which = ["tags", "job_tags", "execution_tags"][ch.choice(3, "tag-kind")]
            return ("tags", inner, [("k" + str(ch.choice(2, "tk")), gen_int(ch))], which)
        if p == "seq":
            n = 1 + ch.choice(cfg.max_fanout, "seq-n")
            return ("seq", [self.gen_expr("int", env, owner, depth + 1) for _ in range(n)])
        if p == "map":
            cands = [u for u in self.prog.tasks[owner.idx + 1 :]
                     if len(u.params) == 1 and u.params[0][1] in ("int",) and not u.recover
                     and u.ret == "int"]
            if not cands:
                return ("list", [self.gen_expr("int", env, owner, depth + 1)])
            u = cands[ch.choice(len(cands), "map-task")]
            if ch.coin(0.5, "map-lit"):
                lst = ("lit", [gen_int(ch) for _ in range(1 + ch.choice(cfg.max_fanout, "map-n"))])
            else:
                lst = self.gen_expr("list", env, owner, depth + 1)
                # map_ over list of ints only: elements produced by our list builders are ints
            return ("map", u.idx, lst)
        if p == "catchall":
            n = 1 + ch.choice(cfg.max_fanout, "ca-n")
            items = [self.gen_expr("int", env, owner, depth + 1) for _ in range(n)]
            en = ["ValueError", "KeyError", "ErrA", "ErrB"][ch.choice(4, "ca-cls")]
            rec = self.recover_task("list", single=False) if ch.coin(0.6, "ca-rec") else None
            return ("catchall", items, en, rec.idx if rec else None)
        if p == "build":
            mk = lambda: self.gen_arg("int", env, owner, depth + 1)
            if kind == "list":
                return ("list", [self.gen_expr("int", env, owner, depth + 1)]
                        + [mk() for _ in range(ch.choice(cfg.max_fanout, "list-n"))])
            if kind == "tuple":
                return ("tuple", [self.gen_expr("int", env, owner, depth + 1), mk()])
            if kind == "dict":
                return ("dict", [("a", self.gen_expr("int", env, owner, depth + 1)), ("b", mk())])
            if kind == "nt":
                return ("nt", [self.gen_expr("int", env, owner, depth + 1), mk()])
            if kind == "dc":
                return ("dc", [self.gen_expr("int", env, owner, depth + 1), mk()])
        raise AssertionError(p)

    CTX_PATHS = ["x", "y", "n.p", "n.q", "n", "zz", "x.deep", "n.p.deeper", "m.r.s"]

    def gen_getctx(self) -> Any:
        path = self.CTX_PATHS[self.ch.choice(len(self.CTX_PATHS), "ctx-path")]
        return ("getctx", path, 70 + self.ch.choice(3, "ctx-default"))

    def gen_ctx(self) -> dict:
        ch = self.ch
        out: dict = {}
        for _ in range(1 + ch.choice(2, "ctx-n")):
            k = ch.choice(5, "ctx-key")
            v = 10 + ch.choice(5, "ctx-val")
            if ch.coin(0.3, "ctx-falsy"):
                # an override may well be falsy: it still wins over an inherited truthy value
                v = [0, False, None, ""][ch.choice(4, "ctx-falsy-val")]
            if ch.coin(0.08, "ctx-mapping-replaced"):
                # a scalar / None replaces a whole inherited mapping
                out["n" if ch.choice(2, "ctx-repl-key") else "m"] = v
                continue
            if k == 0:
                out["x"] = v
            elif k == 1:
                out["y"] = v
            elif k == 2:
                if not isinstance(out.get("n", {}), dict):
                    out["n"] = {}
                out.setdefault("n", {})["p"] = v
            elif k == 3:
                if not isinstance(out.get("n", {}), dict):
                    out["n"] = {}
                out.setdefault("n", {})["q"] = v
            else:
                if not isinstance(out.get("m", {}), dict):
                    out["m"] = {}
                out.setdefault("m", {}).setdefault("r", {})["s"] = v
        return out

    def recover_task(self, kind: str, single: bool) -> TaskDef:
        """Append a recover task (leaf) returning `kind`."""
        t = TaskDef(len(self.prog.tasks))
        t.leaf = True
        t.recover = True
        t.ret = kind
        if single:
            t.params = [("e", "err", None)]
            core = ("mix", t.name, [("errcode", ("par", "e"))])
        else:
            t.params = [("vals", "errlist", None)]
            core = ("mix", t.name, [("par", "vals")])
        t.body = self.wrap_kind(core, kind, [])
        self.prog.tasks.append(t)
        return t


def _children(node: Any) -> list:
    k = node[0]
    if k in ("lit", "par", "getctx"):
        return []
    if k == "call":
        extra = []
        for grp in ("options", "export"):
            for v in (node[4].get(grp) or {}).values():
                if isinstance(v, tuple) and v and isinstance(v[0], str):
                    extra.append(v)
        return list(node[2]) + [n for _, n in node[3]] + extra
    if k in ("list", "tuple", "nt", "dc", "seq", "set"):
        return list(node[1])
    if k == "dict":
        return [n for _, n in node[1]]
    if k == "op":
        return [node[2], node[3]]
    if k in ("idx", "attr", "forkjoin", "errcode", "noprov"):
        return [node[1]]
    if k == "cond":
        return [node[1], node[2], node[3]]
    if k == "catch":
        return [node[1]]
    if k == "catchall":
        return list(node[1])
    if k in ("map", "flatmap"):
        return [node[2]]
    if k == "applyf":
        return list(node[2])
    if k == "tags":
        return [node[1]]
    if k == "mix":
        return list(node[2])
    if k == "subrun":
        return [node[1]]
    raise ValueError(k)


def is_lazy_top(node: Any) -> bool:
    """True if the emitted Python expression is a redun Expression object (awaitable)."""
    k = node[0]
    if k in ("call", "cond", "seq", "catch", "catchall", "map", "flatmap", "applyf",
             "forkjoin", "tags", "getctx", "noprov", "subrun"):
        return True
    if k == "op":
        return is_lazy_top(node[2]) or is_lazy_top(node[3])
    if k == "idx":
        inner = node[1]
        if inner[0] in ("list", "tuple") and isinstance(node[2], int):
            return is_lazy_top(inner[1][node[2]])
        if inner[0] == "dict":
            for key, n in inner[1]:
                if key == node[2]:
                    return is_lazy_top(n)
            return False
        return is_lazy_top(inner)
    if k == "attr":
        inner = node[1]
        if inner[0] in ("nt", "dc"):
            return is_lazy_top(inner[1][0 if node[2] == "x" else 1])
        return is_lazy_top(inner)
    return False


def _is_closed(node: Any) -> bool:
    if node[0] == "par":
        return False
    return all(_is_closed(c) for c in _children(node))


def walk(node: Any):
    yield node
    for c in _children(node):
        yield from walk(c)


# ---------------------------------------------------------------------------
# Emitter
# ---------------------------------------------------------------------------

HEADER = '''\
# generated workflow program
import redun
from redun import task, cond, catch, apply_tags, get_context
from redun.scheduler import catch_all
from redun.functools import seq, map_, flat_map, apply_func, no_prov
from redun.scheduler import fork_thread, join_thread, subrun
from redun.task import CacheScope
from simkit.proglib import P, D, ErrA, ErrB, ErrRes, mix, errcode, hsum, hlist, hit

redun_namespace = "{ns}"


@task()
def join_(th):
    return join_thread(th)


'''


def expr_src(prog: Program, node: Any) -> str:
    k = node[0]
    S = lambda n: expr_src(prog, n)
    if k == "lit":
        return lit_src(node[1])
    if k == "par":
        return node[1]
    if k == "call":
        _, tidx, args, kwargs, opts = node
        callee = prog.tasks[tidx].name
        if opts.get("ctx_chain"):
            for c in opts["ctx_chain"]:
                callee += f".update_context({lit_src(c)})"
        elif opts.get("ctx") is not None:
            callee += f".update_context({lit_src(opts['ctx'])})"
        o_src = e_src = ""
        if opts.get("options"):
            o_src = ".options(" + ", ".join(f"{a}={_opt_src(prog, v)}" for a, v in opts["options"].items()) + ")"
        if opts.get("export"):
            e_src = ".export_options(" + ", ".join(f"{a}={_opt_src(prog, v)}" for a, v in opts["export"].items()) + ")"
        callee += (e_src + o_src) if opts.get("export_first") else (o_src + e_src)
        a = [S(x) for x in args]
        kw = [f"{n}={S(x)}" for n, x in kwargs]
        if opts.get("partial"):
            p = opts["partial"]
            return f"{callee}.partial({', '.join(a[:p])})({', '.join(a[p:] + kw)})"
        return f"{callee}({', '.join(a + kw)})"
    if k == "list":
        return "[" + ", ".join(S(x) for x in node[1]) + "]"
    if k == "set":
        return "{" + ", ".join(S(x) for x in node[1]) + "}"
    if k == "tuple":
        xs = [S(x) for x in node[1]]
        return "(" + ", ".join(xs) + ("," if len(xs) == 1 else "") + ")"
    if k == "dict":
        return "{" + ", ".join(f"{key!r}: {S(x)}" for key, x in node[1]) + "}"
    if k == "nt":
        return f"P({S(node[1][0])}, {S(node[1][1])})"
    if k == "dc":
        return f"D({S(node[1][0])}, {S(node[1][1])})"
    if k == "op":
        return f"({S(node[2])} {node[1]} {S(node[3])})"
    if k == "idx":
        return f"{S(node[1])}[{node[2]!r}]"
    if k == "attr":
        return f"{S(node[1])}.{node[2]}"
    if k == "cond":
        if len(node) > 4 and node[4] == "flat" and node[3][0] == "cond":
            parts, cur = [], node
            while len(cur) > 4 and cur[4] == "flat" and cur[3][0] == "cond":
                parts += [S(cur[1]), S(cur[2])]
                cur = cur[3]
            parts += [S(cur[1]), S(cur[2]), S(cur[3])]
            return "cond(" + ", ".join(parts) + ")"
        return f"cond({S(node[1])}, {S(node[2])}, {S(node[3])})"
    if k == "seq":
        return "seq([" + ", ".join(S(x) for x in node[1]) + "])"
    if k == "catch":
        return f"catch({S(node[1])}, {node[2]}, {prog.tasks[node[3]].name})"
    if k == "catchall":
        rec = prog.tasks[node[3]].name if node[3] is not None else None
        items = "[" + ", ".join(S(x) for x in node[1]) + "]"
        if rec:
            return f"catch_all({items}, {node[2]}, {rec})"
        return f"catch_all({items})"
    if k == "map":
        return f"map_({prog.tasks[node[1]].name}, {S(node[2])})"
    if k == "flatmap":
        return f"flat_map({prog.tasks[node[1]].name}, {S(node[2])})"
    if k == "applyf":
        return f"apply_func({node[1]}, " + ", ".join(S(x) for x in node[2]) + ")"
    if k == "forkjoin":
        return f"join_(fork_thread({S(node[1])}))"
    if k == "tags":
        return f"apply_tags({S(node[1])}, {node[3]}={node[2]!r})"
    if k == "mix":
        return f"mix({node[1]!r}" + "".join(", " + S(x) for x in node[2]) + ")"
    if k == "errcode":
        return f"errcode({S(node[1])})"
    if k == "getctx":
        return f"get_context({node[1]!r}, {lit_src(node[2])})"
    if k == "noprov":
        return f"no_prov({S(node[1])})"
    if k == "subrun":
        opts = node[2]
        return (f"subrun({S(node[1])}, executor={opts.get('executor', 'default')!r}, "
                f"new_execution={opts.get('new_execution', False)!r}"
                + "".join(f", {a}={v!r}" for a, v in opts.items()
                          if a not in ("executor", "new_execution")) + ")")
    raise ValueError(k)


def _opt_src(prog: Program, v: Any) -> str:
    if isinstance(v, tuple) and v and isinstance(v[0], str) and v[0] in ("call", "lit", "op"):
        return expr_src(prog, v)
    return repr(v)


def ValueErrorName(n: str) -> str:
    return n


def task_src(prog: Program, t: TaskDef) -> str:
    opts = dict(t.options)
    if t.version is not None:
        opts["version"] = t.version
    if t.def_export:
        opts["export_options"] = dict(t.def_export)
    deco = "@task(" + ", ".join(f"{k}={_opt_src(prog, v)}" for k, v in opts.items()) + ")"
    params = []
    for name, kind, default in t.params:
        if default is None:
            params.append(name)
        else:
            params.append(f"{name}={expr_src(prog, default)}")
    lines = [deco, f"{'async ' if t.is_async else ''}def {t.name}({', '.join(params)}):"]
    lines.append(f"    hit({t.name!r}" + "".join(", " + p[0] for p in t.params) + ")")
    if t.body_salt:
        lines.append(f"    _salt = {t.body_salt}")
    if t.raises:
        lines.append(f"    raise {t.raises[0]}({t.raises[1]!r})")
    for var, node in t.awaits:
        lines.append(f"    {var} = await {expr_src(prog, node)}")
    for var, node in t.lets:
        lines.append(f"    {var} = {expr_src(prog, node)}")
    lines.append(f"    return {expr_src(prog, t.body)}")
    return "\n".join(lines) + "\n"


class RawProgram:
    """A program given directly as module source (main task must be called t0)."""

    def __init__(self, source: str, limits: Optional[dict] = None):
        self.source = source
        self.main_args: list = []
        self.limits = limits or {}
        self.namespace = "vp"
        self.tasks: list = []

    def key(self) -> str:
        return hashlib.sha256(self.source.encode()).hexdigest()[:16]


def emit(prog: Any) -> str:
    if isinstance(prog, RawProgram):
        return prog.source
    out = [HEADER.format(ns=prog.namespace)]
    # Later tasks first so that names exist when defaults are evaluated at def time.
    for t in reversed(prog.tasks):
        out.append(task_src(prog, t))
        out.append("\n")
    return "".join(out)


# ---------------------------------------------------------------------------
# Loading generated modules
# ---------------------------------------------------------------------------

_LOAD_COUNTER = 0


def load_program(prog: Program, directory: str, modname: str = "vprog") -> Any:
    """
    Write the program to a fresh file and import it under `modname`.
    A fresh file name per load defeats linecache / pyc staleness.
    """
    global _LOAD_COUNTER
    _LOAD_COUNTER += 1
    src = emit(prog)
    path = os.path.join(directory, f"{modname}_{os.getpid()}_{_LOAD_COUNTER}.py")
    with open(path, "w") as f:
        f.write(src)
    sys.dont_write_bytecode = True
    spec = importlib.util.spec_from_file_location(modname, path)
    mod = importlib.util.module_from_spec(spec)
    sys.modules[modname] = mod
    spec.loader.exec_module(mod)
    mod.__verif_path__ = path
    return mod


def unload_program(mod: Any, modname: str = "vprog") -> None:
    import linecache

    sys.modules.pop(modname, None)
    path = getattr(mod, "__verif_path__", None)
    if path:
        linecache.cache.pop(path, None)
        try:
            os.unlink(path)
        except OSError:
            pass


class RegistrySnapshot:
    """Snapshot / restore of the global TaskRegistry around a simulated run."""

    def __enter__(self):
        import redun  # noqa: F401  (make sure every built-in task is registered first)
        import redun.functools  # noqa: F401
        import redun.scheduler  # noqa: F401
        import redun.scripting  # noqa: F401
        from redun.task import get_task_registry

        reg = get_task_registry()
        self.reg = reg
        self.tasks = dict(reg._tasks)
        self.counts = dict(reg._task_hash_counts)
        return self

    def __exit__(self, *a):
        self.reg._tasks.clear()
        self.reg._tasks.update(self.tasks)
        self.reg._task_hash_counts.clear()
        self.reg._task_hash_counts.update(self.counts)
        return False
