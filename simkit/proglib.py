"""
Helpers imported by every generated workflow module (and by the reference interpreter).
Pure Python, no redun.  Everything here is deterministic across processes and hash seeds.
"""

import dataclasses
import zlib
from typing import NamedTuple


class P(NamedTuple):
    x: object
    y: object


@dataclasses.dataclass
class D:
    x: object
    y: object
    z: int = dataclasses.field(default=7, init=False)


class ErrA(ValueError):
    pass


class ErrB(KeyError):
    pass


class ErrRes(RuntimeError):
    """An error that carries a resource pickle refuses with TypeError (like a lost connection
    object): redun records such errors as a generic Exception, and still raises the original."""

    def __init__(self, msg):
        import threading

        super().__init__(msg)
        self.resource = threading.Lock()


ERRORS = {"ValueError": ValueError, "KeyError": KeyError, "ErrA": ErrA, "ErrB": ErrB,
          "ErrRes": ErrRes,
          "ZeroDivisionError": ZeroDivisionError, "TypeError": TypeError}


def flat(v, out=None):
    """Canonical flattening of a nested value to a list of ints."""
    if out is None:
        out = []
    if isinstance(v, bool):
        out.append(11 if v else 13)
    elif isinstance(v, int):
        out.append(v)
    elif isinstance(v, float):
        out.append(int(v * 1000))
    elif v is None:
        out.append(17)
    elif isinstance(v, str):
        out.append(zlib.crc32(v.encode()) % 100003)
    elif isinstance(v, bytes):
        out.append(zlib.crc32(v) % 100003)
    elif isinstance(v, BaseException):
        out.append(errcode(v))
    elif isinstance(v, D):
        out.append(23)
        flat(v.x, out)
        flat(v.y, out)
        out.append(v.z)
    elif isinstance(v, P):
        out.append(29)
        flat(v.x, out)
        flat(v.y, out)
    elif isinstance(v, (list, tuple)):
        out.append(31 if isinstance(v, list) else 37)
        for x in v:
            flat(x, out)
    elif isinstance(v, dict):
        out.append(41)
        for k in sorted(v, key=repr):
            flat(k, out)
            flat(v[k], out)
    elif isinstance(v, (set, frozenset)):
        out.append(43)
        for sub in sorted(flat(x) for x in v):
            out.extend(sub)
    else:
        out.append(zlib.crc32(repr(type(v)).encode()) % 100003)
    return out


def mix(tag, *args):
    """Deterministic int in [0, 10**6) from a tag and arbitrary nested values."""
    h = zlib.crc32(str(tag).encode())
    for a in args:
        for i in flat(a):
            h = zlib.crc32(b"%d," % i, h)
    return h % 1000003


def errcode(e):
    """Deterministic int identifying an exception by type name and message."""
    return zlib.crc32((type(e).__name__ + ":" + str(e.args)).encode()) % 1000003


def hsum(*args):
    """A plain Python function for apply_func (counted like a task function)."""
    hit("hsum", *args)
    return mix("hsum", *args)


def hlist(*args):
    hit("hlist", *args)
    return [mix("hl", a) for a in args]


# Execution counters (per process).  Key: (task name, flat args).
HITS = {}
HIT_LOG = []


def hit(name, *args):
    k = (name, tuple(flat(list(args))))
    HITS[k] = HITS.get(k, 0) + 1
    HIT_LOG.append(k)


def reset_hits():
    HITS.clear()
    del HIT_LOG[:]


# State outside the workflow that a task function may read (an "impure" task): with caching
# switched off a run must see its current value, because nothing may be replayed.
EPOCH = [0]


def epoch():
    return EPOCH[0]


# Simulated clock for file mtimes (generated file-writing tasks stamp their outputs with it).
CLOCK = [1_700_000_000.0]


def tick(dt=1.0):
    CLOCK[0] += dt
    return CLOCK[0]


def stamp(f):
    """Give a redun File the next simulated mtime and refresh its hash (as user code may)."""
    import os

    t = tick(1.0)
    os.utime(f.path, (t, t))
    f.update_hash()
    return f
