"""
Engine C kit: deterministic threads.

Real threading.Threads, but only the thread holding the *baton* runs; all others are parked
on their own semaphore.  The module under test sees shims for `threading` and `time`; blocking
calls hand the baton over, `sys.monitoring` events inside the traced modules are pre-emption
points at which the simulator may take the baton away.  Time is virtual: when no thread is
runnable the clock jumps to the earliest deadline.

One Choices object decides every hand-over, so a run is replayable.
"""

from __future__ import annotations

import sys
import threading as _threading
import types
from typing import Any, Callable, Optional

from .choices import Choices

TOOL_ID = 3  # not sys.monitoring.DEBUGGER_ID: redun.scheduler.is_debugger_active() looks at that


class SimThreadExit(BaseException):
    """Unwinds a simulated thread when the run is being torn down."""


class SimT:
    def __init__(self, sim: "ThreadSim", name: str, target: Optional[Callable], args=(), kwargs=None,
                 is_driver: bool = False):
        self.sim = sim
        self.name = name
        self.target = target
        self.args = args
        self.kwargs = kwargs or {}
        self.sem = _threading.Semaphore(0)
        self.started = False
        self.finished = False
        self.blocked_on: Optional[Callable[[], bool]] = None  # predicate: may I continue?
        self.deadline: Optional[float] = None
        self.block_label = ""
        self.real: Optional[_threading.Thread] = None
        self.ident: Optional[int] = None
        self.is_driver = is_driver
        self.error: Optional[BaseException] = None
        self.priority = 0
        self.descheduled_since: Optional[int] = None

    def runnable(self) -> bool:
        if not self.started or self.finished:
            return False
        if self.blocked_on is None:
            return True
        if self.blocked_on():
            return True
        if self.deadline is not None and self.sim.now >= self.deadline:
            return True
        return False


class ThreadSim:
    def __init__(self, ch: Choices, mode: Optional[str] = None, horizon: int = 4000,
                 max_preemptions: int = 3, latency: bool = True, step_cap: int = 400000,
                 max_latency: float = 1.0, max_latency_faults: int = 4):
        self.ch = ch
        self.now = 1000.0
        self.threads: list[SimT] = []
        self.current: Optional[SimT] = None
        self.events = 0  # pre-emption points seen
        self.switches = 0
        self.preemptions = 0
        self.latency_faults = 0
        # A runnable thread may be kept off the CPU while timers of others fire, but only for
        # a bounded virtual duration and a bounded number of times per run.
        self.max_latency = max_latency
        self.max_latency_faults = max_latency_faults
        self.step_cap = step_cap
        self.aborting = False
        self.log: list[tuple] = []
        self.seq = 0
        self.by_ident: dict[int, SimT] = {}
        self.deadlocked = False
        # schedule policy
        self.mode = mode or ["pct", "pct", "stress", "none"][ch.choice(4, "sched-mode")]
        self.preempt_at: set[int] = set()
        if self.mode == "pct":
            d = 1 + ch.choice(max_preemptions, "n-preempt")
            for _ in range(d):
                self.preempt_at.add(ch.choice(horizon, "preempt-at"))
        self.stress_p = [0.002, 0.01, 0.05][ch.choice(3, "stress-p")] if self.mode == "stress" else 0
        self.latency = latency and bool(ch.choice(2, "latency-on"))
        self.latency_p = [0.02, 0.1, 0.3][ch.choice(3, "latency-p")] if self.latency else 0
        self.driver = SimT(self, "driver", None, is_driver=True)
        self.driver.started = True
        self.driver.ident = _threading.get_ident()
        self.driver.real = _threading.current_thread()
        self.by_ident[self.driver.ident] = self.driver
        self.threads.append(self.driver)
        self.current = self.driver
        self.tracing = False

    # -- logging -----------------------------------------------------------------
    def event(self, kind: str, *data: Any) -> None:
        self.seq += 1
        self.log.append((self.seq, round(self.now, 6), kind) + data)

    def digest(self) -> str:
        import hashlib

        h = hashlib.sha256()
        for e in self.log:
            h.update(repr(e).encode())
        return h.hexdigest()[:24]

    # -- who am I -------------------------------------------------------------------
    def me(self) -> Optional[SimT]:
        return self.by_ident.get(_threading.get_ident())

    # -- baton ------------------------------------------------------------------------
    def _hand_over(self, me: SimT, nxt: SimT) -> None:
        if nxt is me:
            return
        self.switches += 1
        self.current = nxt
        nxt.sem.release()
        me.sem.acquire()
        if self.aborting and not me.is_driver:
            raise SimThreadExit()

    def _pick_next(self, me: Optional[SimT], allow_me: bool) -> Optional[SimT]:
        """Choose the next thread to run; advances virtual time if nobody is runnable."""
        for _ in range(100000):
            cands = [t for t in self.threads if t.runnable() and (allow_me or t is not me)]
            sleepers = [t for t in self.threads if t.started and not t.finished
                        and t.blocked_on is not None and t.deadline is not None and not t.runnable()]
            # scheduling-latency fault: time passes although somebody could run
            if (cands and sleepers and self.latency_p
                    and self.latency_faults < self.max_latency_faults
                    and min(s.deadline for s in sleepers) - self.now <= self.max_latency
                    and self.ch.coin(self.latency_p, "latency")):
                self.latency_faults += 1
                t0 = min(s.deadline for s in sleepers)
                self.now = max(self.now, t0)
                self.event("latency-jump", round(t0, 3))
                continue
            if cands:
                if len(cands) == 1:
                    return cands[0]
                return cands[self.ch.choice(len(cands), "pick-thread")]
            if sleepers:
                t0 = min(s.deadline for s in sleepers)
                self.now = max(self.now, t0)
                self.event("time-jump", round(t0, 3))
                continue
            return None
        raise RuntimeError("scheduler made no progress")

    def _yield(self, me: SimT, allow_me: bool = True) -> None:
        nxt = self._pick_next(me, allow_me)
        if nxt is None:
            # nothing can run: quiescent deadlock -> wake the driver so it can judge
            self.deadlocked = True
            self.event("quiescent")
            if me.is_driver:
                return
            self._hand_over(me, self.driver)
            return
        self._hand_over(me, nxt)

    # -- blocking primitive used by all shims ----------------------------------------------
    def block_until(self, pred: Callable[[], bool], timeout: Optional[float] = None,
                    label: str = "") -> bool:
        """Block the calling sim thread until pred() or timeout (virtual). Returns pred()."""
        me = self.me()
        if me is None or self.aborting:
            if self.aborting and me is not None and not me.is_driver:
                raise SimThreadExit()
            return pred()
        if pred():
            return True
        me.blocked_on = pred
        me.deadline = None if timeout is None else self.now + max(0.0, timeout)
        me.block_label = label
        while True:
            if pred():
                break
            if me.deadline is not None and self.now >= me.deadline:
                break
            nxt = self._pick_next(me, allow_me=True)
            if nxt is None:
                self.deadlocked = True
                self.event("quiescent", me.name, label)
                if me.is_driver:
                    break
                self._hand_over(me, self.driver)
                continue
            if nxt is me:
                continue
            self._hand_over(me, nxt)
        me.blocked_on = None
        me.deadline = None
        return pred()

    # -- pre-emption points ------------------------------------------------------------------
    def preempt_point(self) -> None:
        if self.aborting:
            return
        me = self.me()
        if me is None or me is not self.current:
            return
        self.events += 1
        if self.events > self.step_cap:
            self.aborting = True
            self.event("step-cap")
            return
        take = False
        if self.mode == "pct":
            take = self.events in self.preempt_at
        elif self.mode == "stress":
            take = self.ch.coin(self.stress_p, "preempt?")
        if not take:
            return
        others = [t for t in self.threads if t is not me and t.runnable()]
        sleepers = [t for t in self.threads if t is not me and t.started and not t.finished
                    and t.deadline is not None]
        can_jump = (sleepers and self.latency_p
                    and self.latency_faults < self.max_latency_faults
                    and min(s.deadline for s in sleepers) - self.now <= self.max_latency)
        if not others and not can_jump:
            return
        self.preemptions += 1
        self.event("preempt", me.name, self.events)
        if not others:
            # only sleepers: a latency fault lets their timers fire while we are descheduled
            t0 = min(s.deadline for s in sleepers)
            self.now = max(self.now, t0)
            self.latency_faults += 1
            others = [t for t in self.threads if t is not me and t.runnable()]
            if not others:
                return
        nxt = others[self.ch.choice(len(others), "preempt-to")] if len(others) > 1 else others[0]
        self._hand_over(me, nxt)

    # -- thread lifecycle ----------------------------------------------------------------------
    def spawn(self, t: SimT) -> None:
        def runner():
            t.ident = _threading.get_ident()
            self.by_ident[t.ident] = t
            t.sem.acquire()  # wait for the baton
            try:
                if not self.aborting:
                    t.target(*t.args, **t.kwargs)
            except SimThreadExit:
                pass
            except BaseException as e:  # noqa
                t.error = e
                self.event("thread-error", t.name, type(e).__name__)
            finally:
                t.finished = True
                self.event("thread-exit", t.name)
                if not self.aborting:
                    nxt = self._pick_next(t, allow_me=False)
                    if nxt is None:
                        self.deadlocked = True
                        nxt = self.driver
                    self.current = nxt
                    nxt.sem.release()

        t.real = _threading.Thread(target=runner, name="sim-" + t.name, daemon=True)
        t.started = True
        self.threads.append(t)
        t.real.start()
        # make sure the ident is registered before anyone looks it up
        while t.ident is None:
            pass
        self.event("thread-start", t.name)

    def shutdown(self) -> list[str]:
        """Tear down: unwind every thread that is still parked. Returns names of stuck threads."""
        stuck = [t.name for t in self.threads if t.started and not t.finished and not t.is_driver]
        self.aborting = True
        for t in self.threads:
            if t.started and not t.finished and not t.is_driver:
                t.sem.release()
        for t in self.threads:
            if t.real is not None and not t.is_driver:
                t.real.join(timeout=5)
        return stuck

    # -- shims -------------------------------------------------------------------------------------
    def threading_shim(self) -> types.SimpleNamespace:
        sim = self

        class Thread:
            _count = 0

            def __init__(self, group=None, target=None, name=None, args=(), kwargs=None, daemon=None):
                Thread._count += 1
                self._t = SimT(sim, name or f"T{Thread._count}", target, args, kwargs)
                self.daemon = daemon
                self.name = self._t.name

            def start(self):
                if self._t.started:
                    raise RuntimeError("threads can only be started once")
                sim.spawn(self._t)

            def is_alive(self):
                return self._t.started and not self._t.finished

            def join(self, timeout=None):
                sim.block_until(lambda: self._t.finished, timeout, "join:" + self._t.name)

            @property
            def ident(self):
                return self._t.ident

        class Lock:
            def __init__(self):
                self.owner: Optional[SimT] = None
                self.count = 0
                self.reentrant = False

            def acquire(self, blocking=True, timeout=-1):
                me = sim.me()
                if self.reentrant and self.owner is me and me is not None:
                    self.count += 1
                    return True
                if self.owner is None:
                    self.owner = me or True
                    self.count = 1
                    return True
                if not blocking:
                    return False
                ok = sim.block_until(lambda: self.owner is None,
                                     None if timeout is None or timeout < 0 else timeout, "lock")
                if ok:
                    self.owner = me or True
                    self.count = 1
                return ok

            def release(self):
                self.count -= 1
                if self.count <= 0:
                    self.owner = None
                    self.count = 0

            def locked(self):
                return self.owner is not None

            __enter__ = acquire

            def __exit__(self, *a):
                self.release()

        class RLock(Lock):
            def __init__(self):
                super().__init__()
                self.reentrant = True

        class Event:
            def __init__(self):
                self._flag = False

            def is_set(self):
                return self._flag

            def set(self):
                self._flag = True

            def clear(self):
                self._flag = False

            def wait(self, timeout=None):
                sim.block_until(lambda: self._flag, timeout, "event")
                return self._flag

        ns = types.SimpleNamespace(
            Thread=Thread, Lock=Lock, RLock=RLock, Event=Event,
            get_ident=_threading.get_ident, current_thread=_threading.current_thread,
            local=_threading.local,
        )
        return ns

    def time_shim(self) -> types.SimpleNamespace:
        sim = self

        def sleep(d):
            sim.block_until(lambda: False, d, "sleep")

        return types.SimpleNamespace(time=lambda: sim.now, sleep=sleep, monotonic=lambda: sim.now)

    # driver helpers
    def sleep(self, d: float) -> None:
        self.block_until(lambda: False, d, "driver-sleep")

    def sleep_until(self, t: float) -> None:
        if t > self.now:
            self.block_until(lambda: False, t - self.now, "driver-sleep")

    def wait_quiescent(self, max_time: float) -> None:
        """Let the other threads run until nothing can run any more, or virtual time is up."""
        self.deadlocked = False
        self.block_until(lambda: self.deadlocked or all(
            t.finished for t in self.threads if not t.is_driver), max_time, "driver-quiesce")


# ---------------------------------------------------------------------------
# sys.monitoring plumbing
# ---------------------------------------------------------------------------

_ACTIVE: Optional[ThreadSim] = None
_REGISTERED: set = set()
_TOOL_READY = False


def _code_objects(obj: Any, seen: set) -> list:
    out = []
    if isinstance(obj, types.CodeType):
        if obj in seen:
            return out
        seen.add(obj)
        out.append(obj)
        for c in obj.co_consts:
            if isinstance(c, types.CodeType):
                out.extend(_code_objects(c, seen))
    return out


def module_code_objects(mod: types.ModuleType) -> list:
    seen: set = set()
    out = []
    for v in list(vars(mod).values()):
        if isinstance(v, types.FunctionType) and v.__module__ == mod.__name__:
            out.extend(_code_objects(v.__code__, seen))
        elif isinstance(v, type) and v.__module__ == mod.__name__:
            for m in vars(v).values():
                f = m
                if isinstance(m, (staticmethod, classmethod)):
                    f = m.__func__
                if isinstance(m, property):
                    for g in (m.fget, m.fset, m.fdel):
                        if g is not None:
                            out.extend(_code_objects(g.__code__, seen))
                    continue
                f = getattr(f, "__wrapped__", f)
                if isinstance(f, types.FunctionType):
                    out.extend(_code_objects(f.__code__, seen))
    return out


def _callback(code, offset):
    sim = _ACTIVE
    if sim is not None:
        sim.preempt_point()


def trace_modules(mods: list[tuple[types.ModuleType, str]]) -> None:
    """
    Register local events (once per process, up front, for every code object of the modules,
    so the event stream is the same from the first call on).  granularity: 'instruction'|'line'.
    """
    global _TOOL_READY
    mon = sys.monitoring
    if not _TOOL_READY:
        if mon.get_tool(TOOL_ID) is None:
            mon.use_tool_id(TOOL_ID, "verif-threadsim")
        mon.register_callback(TOOL_ID, mon.events.INSTRUCTION, _callback)
        mon.register_callback(TOOL_ID, mon.events.LINE, _callback)
        _TOOL_READY = True
    for mod, gran in mods:
        ev = mon.events.INSTRUCTION if gran == "instruction" else mon.events.LINE
        for code in module_code_objects(mod):
            if (code, gran) in _REGISTERED:
                continue
            _REGISTERED.add((code, gran))
            mon.set_local_events(TOOL_ID, code, ev)


def activate(sim: Optional[ThreadSim]) -> None:
    global _ACTIVE
    _ACTIVE = sim
