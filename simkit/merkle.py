"""Independent re-implementation of redun's structure hash for call nodes (bencode + sha512)."""

from __future__ import annotations

import hashlib
from typing import Any


def _benc(x: Any) -> bytes:
    if isinstance(x, str):
        b = x.encode("utf-8")
        return b"%d:" % len(b) + b
    if isinstance(x, bytes):
        return b"%d:" % len(x) + x
    if isinstance(x, int) and not isinstance(x, bool):
        return b"i%de" % x
    if isinstance(x, (list, tuple)):
        return b"l" + b"".join(_benc(i) for i in x) + b"e"
    if isinstance(x, dict):
        return b"d" + b"".join(_benc(k) + _benc(x[k]) for k in sorted(x)) + b"e"
    raise TypeError(type(x))


def hash_struct(struct: Any) -> str:
    return hashlib.sha512(_benc(struct)).hexdigest()[:40]


def call_node_hash(task_hash: str, args_hash: str, value_hash: str, children: list[str]) -> str:
    return hash_struct(["CallNode", task_hash, args_hash, value_hash, sorted(children)])
