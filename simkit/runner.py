"""
Batch runner: seeded search over simulated runs, in parallel, with shrinking,
replay files, known-finding handling and evidence output.

A check module provides a subclass of `Check`.  `main(check_cls)` is the entry point
used by /verif/check.
"""

from __future__ import annotations

import argparse
import faulthandler
import hashlib
import json
import os
import shutil
import signal
import sys
import time
import traceback
from typing import Any, Optional

from .choices import Choices, derive_seed, shrink

VERIF_DIR = os.path.dirname(os.path.dirname(os.path.abspath(__file__)))
KIT_VERSION = 1


def kit_digest() -> str:
    """
    Digest of the machinery's own sources. A replay file is a choice list, and what a choice
    list means (which program, which schedule) is defined by the generator code that reads it:
    a file written by another version of the kit need not reproduce.
    """
    import glob
    import hashlib

    base = os.path.dirname(os.path.dirname(os.path.abspath(__file__)))
    h = hashlib.sha256()
    for f in sorted(glob.glob(os.path.join(base, "simkit", "*.py"))
                    + glob.glob(os.path.join(base, "checks", "*.py"))):
        h.update(os.path.basename(f).encode())
        with open(f, "rb") as fh:
            h.update(fh.read())
    return h.hexdigest()[:16]


class HarnessError(Exception):
    pass


class Violation:
    def __init__(self, oracle_id: str, signature: str, detail: Any):
        self.oracle_id = oracle_id
        self.signature = signature
        self.detail = detail

    def key(self) -> tuple[str, str]:
        return (self.oracle_id, self.signature)

    def to_json(self) -> dict:
        return {"oracle_id": self.oracle_id, "signature": self.signature, "detail": self.detail}


class RunOutcome:
    """What one simulated run reports back to the runner."""

    def __init__(self) -> None:
        self.violations: list[Violation] = []
        self.nontrivial: bool = False
        self.key: str = ""  # identity of the case for distinct counting
        self.sim_time: float = 0.0
        self.faults: dict[str, int] = {}
        self.probes: dict[str, int] = {}
        self.sample: Any = None
        self.steps: int = 0
        self.digest: str = ""  # event-log digest (determinism self-test)
        self.extra: dict[str, int] = {}  # extra integer counters summed into the evidence

    def violate(self, oracle_id: str, signature: str, detail: Any) -> None:
        self.violations.append(Violation(oracle_id, signature, detail))

    def probe(self, name: str, n: int = 1) -> None:
        self.probes[name] = self.probes.get(name, 0) + n

    def fault(self, name: str, n: int = 1) -> None:
        self.faults[name] = self.faults.get(name, 0) + n


class Check:
    PROPERTY = "C00"
    LEVEL = "exploration"
    RULE = ""
    ASSUMPTIONS: list[str] = []
    COMPONENTS_REAL: list[str] = []
    COMPONENTS_STUB: list[str] = []
    QUICK_SECONDS = 40.0
    THOROUGH_SECONDS = 600.0
    USES_TEMPLATE_DB = False  # batch runner migrates one template database before forking
    RUN_TIMEOUT = 120.0  # wall seconds before a single run counts as hung
    SHRINK_TESTS = 250
    SHRINK_SECONDS = 60.0
    # probes that must be non-zero in the thorough tier (self-assessment only)
    EXPECTED_PROBES: list[str] = []

    def __init__(self, tier: str):
        self.tier = tier

    def setup(self) -> None:
        """Once per worker process."""

    def teardown(self) -> None:
        pass

    def run_one(self, ch: Choices) -> RunOutcome:
        raise NotImplementedError

    def begin_case(self) -> None:
        """Reset per-case simulator state (called before every run_one)."""

    def run_case(self, ch: Choices) -> RunOutcome:
        self.begin_case()
        return self.run_one(ch)


# ---------------------------------------------------------------------------


def load_known_findings() -> list[dict]:
    path = os.path.join(VERIF_DIR, "known_findings.json")
    if not os.path.exists(path):
        return []
    with open(path) as f:
        data = json.load(f)
    return data.get("findings", [])


def match_known(known: list[dict], prop: str, v: Violation) -> Optional[dict]:
    for k in known:
        if k["property"] == prop and k["oracle_id"] == v.oracle_id and k["signature"] == v.signature:
            return k
    return None


def scratch_root() -> str:
    base = "/dev/shm" if os.path.isdir("/dev/shm") else "/tmp"
    return os.path.join(base, f"verif-{os.getpid()}")


# ---------------------------------------------------------------------------


MIN_RUNS_PER_WORKER = 2


def _worker(
    check_cls,
    tier: str,
    base_seed: int,
    wid: int,
    nworkers: int,
    deadline: float,
    max_runs: Optional[int],
    stop_path: str,
    out_path: str,
    known: list[dict],
) -> None:
    """Runs in a forked child. Writes a JSON summary to out_path."""
    faulthandler.enable()
    summary: dict[str, Any] = {
        "wid": wid,
        "runs": 0,
        "nontrivial_keys": [],
        "sim_time": 0.0,
        "faults": {},
        "probes": {},
        "extra": {},
        "samples": [],
        "known_hits": {},
        "violation": None,
        "harness_error": None,
        "steps": 0,
    }
    keys: set[str] = set()
    check = check_cls(tier)
    try:
        check.setup()
        idx = wid
        while True:
            if max_runs is not None and idx >= max_runs:
                break
            if max_runs is None and time.time() >= deadline and summary["runs"] >= MIN_RUNS_PER_WORKER:
                break  # (a loaded machine must not turn a budget into "nothing explored")
            if os.path.exists(stop_path):
                break
            seed = derive_seed(base_seed, check.PROPERTY, idx)
            ch = Choices(seed=seed)
            faulthandler.dump_traceback_later(check.RUN_TIMEOUT, exit=True)
            out = check.run_case(ch)
            faulthandler.cancel_dump_traceback_later()
            summary["runs"] += 1
            summary["sim_time"] += out.sim_time
            summary["steps"] += out.steps
            for k, n in out.faults.items():
                summary["faults"][k] = summary["faults"].get(k, 0) + n
            for k, n in out.probes.items():
                summary["probes"][k] = summary["probes"].get(k, 0) + n
            for k, n in out.extra.items():
                summary["extra"][k] = summary["extra"].get(k, 0) + n
            if out.nontrivial:
                keys.add(out.key)
            if out.sample is not None and len(summary["samples"]) < 2:
                summary["samples"].append({"run_index": idx, "seed": seed, "case": out.sample})
            unknown = None
            for v in out.violations:
                k = match_known(known, check.PROPERTY, v)
                if k is not None:
                    kk = f"{v.oracle_id}|{v.signature}"
                    summary["known_hits"][kk] = summary["known_hits"].get(kk, 0) + 1
                elif unknown is None:
                    unknown = v
            if unknown is not None:
                # Tell the others to stop, then minimise.
                open(stop_path, "w").close()
                t_end = time.time() + check.SHRINK_SECONDS
                target = unknown.key()

                def still_fails(cand: list[int]) -> bool:
                    try:
                        o = check.run_case(Choices(replay=cand))
                    except Exception:
                        return False
                    return any(v.key() == target for v in o.violations)

                faulthandler.dump_traceback_later(
                    check.SHRINK_SECONDS + 4 * check.RUN_TIMEOUT, exit=True
                )
                # First make sure the recorded list replays at all.
                replays = still_fails(list(ch.values))
                minimal = list(ch.values)
                if replays:
                    minimal = shrink(
                        list(ch.values),
                        still_fails,
                        max_tests=check.SHRINK_TESTS,
                        deadline=lambda: time.time() > t_end,
                    )
                final = check.run_case(Choices(replay=minimal))
                faulthandler.cancel_dump_traceback_later()
                fv = next((v for v in final.violations if v.key() == target), unknown)
                summary["violation"] = {
                    "property": check.PROPERTY,
                    "tier": tier,
                    "kit_version": KIT_VERSION,
                    "kit_digest": kit_digest(),
                    "verif_seed": base_seed,
                    "run_index": idx,
                    "run_seed": seed,
                    "original_len": len(ch.values),
                    "choices": minimal,
                    "replays_deterministically": replays,
                    "oracle_id": fv.oracle_id,
                    "signature": fv.signature,
                    "detail": fv.detail,
                    "case": final.sample,
                }
                break
            idx += nworkers
    except BaseException as e:  # noqa
        summary["harness_error"] = "".join(traceback.format_exception(type(e), e, e.__traceback__))
    finally:
        try:
            check.teardown()
        except Exception:
            pass
    summary["nontrivial_keys"] = sorted(keys)
    tmp = out_path + ".tmp"
    with open(tmp, "w") as f:
        json.dump(summary, f, default=repr)
    os.rename(tmp, out_path)


def _json_safe(x: Any) -> Any:
    return json.loads(json.dumps(x, default=repr))


def run_batch(check_cls, tier: str, base_seed: int, seconds: float, workers: int,
              max_runs: Optional[int] = None) -> int:
    t0 = time.time()
    prop = check_cls.PROPERTY
    known = load_known_findings()
    root = scratch_root()
    os.makedirs(root, exist_ok=True)
    stop_path = os.path.join(root, "STOP")
    deadline = t0 + seconds
    pids: dict[int, int] = {}
    outs: dict[int, str] = {}

    def cleanup(*_a):
        for pid in pids:
            try:
                os.kill(pid, signal.SIGKILL)
            except ProcessLookupError:
                pass
        shutil.rmtree(root, ignore_errors=True)

    def on_term(signum, frame):
        cleanup()
        os._exit(3)

    signal.signal(signal.SIGTERM, on_term)
    signal.signal(signal.SIGINT, on_term)

    if getattr(check_cls, "USES_TEMPLATE_DB", False):
        # migrate one empty database here; every worker copies it (alembic takes seconds under load)
        from . import schedsim

        os.environ["VERIF_SCRATCH"] = os.path.join(root, "shared")
        os.makedirs(os.environ["VERIF_SCRATCH"], exist_ok=True)
        os.environ["VERIF_TEMPLATE_DB"] = schedsim.template_db()
        schedsim._TEMPLATE = None
        deadline = time.time() + seconds
    sys.stdout.flush()
    for wid in range(workers):
        out_path = os.path.join(root, f"out-{wid}.json")
        outs[wid] = out_path
        pid = os.fork()
        if pid == 0:
            code = 0
            try:
                signal.signal(signal.SIGTERM, signal.SIG_DFL)
                signal.signal(signal.SIGINT, signal.SIG_DFL)
                os.environ["VERIF_SCRATCH"] = os.path.join(root, f"w{wid}")
                os.makedirs(os.environ["VERIF_SCRATCH"], exist_ok=True)
                _worker(check_cls, tier, base_seed, wid, workers, deadline, max_runs,
                        stop_path, out_path, known)
            except BaseException:
                traceback.print_exc()
                code = 2
            finally:
                sys.stdout.flush()
                sys.stderr.flush()
                os._exit(code)
        pids[pid] = wid

    # Watchdog: generous grace beyond the deadline (shrinking may take a while).
    grace = check_cls.SHRINK_SECONDS + 5 * check_cls.RUN_TIMEOUT + 30
    hard_deadline = (deadline if max_runs is None else t0 + 3600 * 8) + grace
    harness_errors: list[str] = []
    remaining = dict(pids)
    while remaining:
        try:
            pid, status = os.waitpid(-1, os.WNOHANG)
        except ChildProcessError:
            break
        if pid == 0:
            if time.time() > hard_deadline:
                for p in remaining:
                    try:
                        os.kill(p, signal.SIGKILL)
                    except ProcessLookupError:
                        pass
                harness_errors.append("worker(s) hung past the hard deadline and were killed")
                break
            time.sleep(0.05)
            continue
        wid = remaining.pop(pid, None)
        if wid is None:
            continue
        if status != 0 and not os.path.exists(outs[wid]):
            harness_errors.append(f"worker {wid} died with status {status}")

    summaries = []
    for wid, p in outs.items():
        if os.path.exists(p):
            with open(p) as f:
                summaries.append(json.load(f))
    for s in summaries:
        if s.get("harness_error"):
            harness_errors.append(f"worker {s['wid']}: {s['harness_error']}")

    # Aggregate.
    runs = sum(s["runs"] for s in summaries)
    keys: set[str] = set()
    faults: dict[str, int] = {}
    probes: dict[str, int] = {}
    extra: dict[str, int] = {}
    known_hits: dict[str, int] = {}
    samples: list[Any] = []
    sim_time = 0.0
    steps = 0
    violations = []
    for s in summaries:
        keys.update(s["nontrivial_keys"])
        sim_time += s["sim_time"]
        steps += s.get("steps", 0)
        for k, n in s["faults"].items():
            faults[k] = faults.get(k, 0) + n
        for k, n in s["probes"].items():
            probes[k] = probes.get(k, 0) + n
        for k, n in s["extra"].items():
            extra[k] = extra.get(k, 0) + n
        for k, n in s["known_hits"].items():
            known_hits[k] = known_hits.get(k, 0) + n
        samples.extend(s["samples"])
        if s["violation"]:
            violations.append(s["violation"])
    wall = time.time() - t0

    exit_code = 0
    # Known findings: one line per listed entry that was met.
    for k in known:
        if k["property"] != prop:
            continue
        kk = f"{k['oracle_id']}|{k['signature']}"
        if known_hits.get(kk):
            print(f"KNOWN-FINDING: property={prop} {k['what']} "
                  f"[{k['oracle_id']} / {k['signature']}; met {known_hits[kk]}x this run]")

    replay_paths = []
    for v in violations:
        os.makedirs(os.path.join(VERIF_DIR, "replays"), exist_ok=True)
        path = os.path.join(VERIF_DIR, "replays", f"{prop}-{v['run_seed']}.json")
        with open(path, "w") as f:
            json.dump(_json_safe(v), f, indent=1)
        replay_paths.append(path)
        print(f"VIOLATION property={prop} replay={path}")
        print(f"  oracle={v['oracle_id']} signature={v['signature']} "
              f"choices={len(v['choices'])} (from {v['original_len']})")
        print("  detail: " + json.dumps(_json_safe(v["detail"]))[:1500])
        exit_code = 1

    if harness_errors:
        for e in harness_errors:
            print("HARNESS-ERROR: " + e, file=sys.stderr)
        if exit_code == 0:
            exit_code = 2

    zero_probes = [p for p in check_cls.EXPECTED_PROBES if not probes.get(p)]
    evidence = {
        "property_id": prop,
        "tier": tier,
        "seed": base_seed,
        "level": check_cls.LEVEL,
        "coverage": {
            "evaluations": runs,
            "distinct_nontrivial": len(keys),
            "rule": check_cls.RULE,
            "samples": _json_safe(samples[:3]) or [{"note": "no sample recorded"}],
            "runs_per_hour": int(runs / wall * 3600) if wall > 0 else 0,
            "seeds": {"base": base_seed, "count": runs,
                      "derivation": "sha256(VERIF_SEED/property/run_index)"},
            "sim_time_s": round(sim_time, 3),
            "sim_steps": steps,
            "faults_fired": faults,
            "probes": probes,
            "expected_probes_at_zero": zero_probes,
            "known_findings_hit": known_hits,
            "components_real": check_cls.COMPONENTS_REAL,
            "components_stub": check_cls.COMPONENTS_STUB,
            "workers": workers,
            **extra,
        },
        "assumptions": check_cls.ASSUMPTIONS,
        "wall_s": round(wall, 2),
        "violations": len(violations),
    }
    if harness_errors:
        evidence["coverage"]["harness_errors"] = harness_errors[:5]
    # (VERIF_EVIDENCE_DIR: used by tools/seeded_eval.sh so that runs against a deliberately
    # broken tree do not overwrite the evidence of the real tree)
    ev_dir = os.environ.get("VERIF_EVIDENCE_DIR") or os.path.join(VERIF_DIR, "evidence")
    os.makedirs(ev_dir, exist_ok=True)
    ev_path = os.path.join(ev_dir, f"{prop}.json")
    try:
        import jsonschema

        with open("/root/.vp/EVIDENCE.schema.json") as f:
            schema = json.load(f)
        jsonschema.validate(evidence, schema)
    except FileNotFoundError:
        pass
    except ImportError:
        pass
    except Exception as e:  # schema failure: report, keep file for inspection
        if exit_code == 0:
            print(f"HARNESS-ERROR: evidence does not validate: {e}", file=sys.stderr)
            exit_code = 2
        else:
            # a violation stopped the batch early: coverage is whatever had been explored
            print(f"note: batch stopped early by a violation; evidence is partial "
                  f"({str(e).splitlines()[0]})", file=sys.stderr)
    with open(ev_path, "w") as f:
        json.dump(evidence, f, indent=1)

    print(f"{prop} {tier}: runs={runs} distinct_nontrivial={len(keys)} wall={wall:.1f}s "
          f"faults={faults} probes={probes} known={known_hits} violations={len(violations)}")
    shutil.rmtree(root, ignore_errors=True)
    return exit_code


def run_replay(check_cls, path: str) -> int:
    with open(path) as f:
        rec = json.load(f)
    os.environ["VERIF_SCRATCH"] = os.path.join(scratch_root(), "w0")
    os.makedirs(os.environ["VERIF_SCRATCH"], exist_ok=True)
    check = check_cls(rec.get("tier", "quick"))
    try:
        check.setup()
        out = check.run_case(Choices(replay=rec["choices"]))
        check.teardown()
    finally:
        shutil.rmtree(scratch_root(), ignore_errors=True)
    want = (rec["oracle_id"], rec["signature"])
    got = [v for v in out.violations if v.key() == want]
    if got:
        print(f"VIOLATION property={check_cls.PROPERTY} replay={path}")
        print(f"  reproduced oracle={want[0]} signature={want[1]}")
        print("  detail: " + json.dumps(_json_safe(got[0].detail))[:3000])
        if out.sample is not None:
            print("  case: " + json.dumps(_json_safe(out.sample))[:6000])
        return 1
    print(f"replay did NOT reproduce {want}; observed {[v.key() for v in out.violations]}")
    if rec.get("kit_digest") not in (None, kit_digest()):
        print("  note: the file was written by another version of the machinery "
              f"({rec.get('kit_digest')}, now {kit_digest()}); a choice list is only meaningful "
              "to the generator version that recorded it")
    return 0


def run_selftest_determinism(check_cls, tier: str, base_seed: int, n: int) -> int:
    """Run n seeds twice in this process; print digests (to be diffed across interpreters)."""
    os.environ["VERIF_SCRATCH"] = os.path.join(scratch_root(), "w0")
    os.makedirs(os.environ["VERIF_SCRATCH"], exist_ok=True)
    check = check_cls(tier)
    bad = 0
    lines = []
    try:
        check.setup()
        for idx in range(n):
            seed = derive_seed(base_seed, check.PROPERTY, idx)
            o1 = check.run_case(Choices(seed=seed))
            c2 = Choices(seed=seed)
            o2 = check.run_case(c2)
            o3 = check.run_case(Choices(replay=c2.values))
            d = (o1.digest, o2.digest, o3.digest)
            v = tuple(sorted(x.key() for x in o1.violations))
            if not (d[0] == d[1] == d[2]) or not o1.digest:
                bad += 1
                print(f"NONDETERMINISTIC idx={idx} seed={seed} digests={d}")
            lines.append(f"{idx} {o1.digest} {v}")
        check.teardown()
    finally:
        shutil.rmtree(scratch_root(), ignore_errors=True)
    h = hashlib.sha256("\n".join(lines).encode()).hexdigest()
    print(f"DETERMINISM {check_cls.PROPERTY}: n={n} in-process-mismatches={bad} all-digest={h}")
    out = os.environ.get("VERIF_DIGEST_OUT")
    if out:
        with open(out, "w") as f:
            f.write("\n".join(lines) + "\n")
    return 1 if bad else 0


def main(check_cls) -> int:
    ap = argparse.ArgumentParser()
    ap.add_argument("--tier", default=os.environ.get("VERIF_TIER", "quick"),
                    choices=["quick", "thorough"])
    ap.add_argument("--replay")
    ap.add_argument("--seconds", type=float)
    ap.add_argument("--runs", type=int)
    ap.add_argument("--workers", type=int, default=int(os.environ.get("VERIF_WORKERS", "0")))
    ap.add_argument("--selftest-determinism", type=int, default=0)
    args = ap.parse_args(sys.argv[2:])
    base_seed = int(os.environ.get("VERIF_SEED", "0") or 0)
    if args.replay:
        return run_replay(check_cls, args.replay)
    if args.selftest_determinism:
        return run_selftest_determinism(check_cls, args.tier, base_seed, args.selftest_determinism)
    seconds = args.seconds or (
        check_cls.QUICK_SECONDS if args.tier == "quick" else check_cls.THOROUGH_SECONDS
    )
    workers = args.workers or min(16, os.cpu_count() or 1)
    return run_batch(check_cls, args.tier, base_seed, seconds, workers, args.runs)
