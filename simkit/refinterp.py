"""
Reference interpreter for generated workflow programs: a direct transcription of the
reduction rules in docs/source/implementation/evaluation.md over the program AST.
It knows nothing about promises, queues, jobs, hashes or caches.

`Ref(prog).run()` returns a set of admissible outcomes: with several independent failing
sub-expressions the error that wins is legitimately schedule dependent (Promise.all
rejects with the first rejection it observes), so parallel forms take the union of their
children's errors.  Single-failure programs yield singleton sets.
"""

from __future__ import annotations

import re

import itertools
import operator
from typing import Any, Optional

from . import proglib
from .proglib import D, P
from .progs import Program, TaskDef

CAP = 16  # max outcomes tracked per node before the run is flagged "loose"


class Loose(Exception):
    """Outcome set grew beyond CAP: oracle declines to judge this run."""


_CMP = re.compile(r"'(<|>|<=|>=)' not supported between instances of '([^']*)' and '([^']*)'")


def _canon_args(e: BaseException) -> str:
    """repr(e.args), with one normalisation: which side of an ill-typed comparison Python asks
    first depends on the *expression classes* involved (a SchedulerExpression is a subclass of
    TaskExpression and therefore gets to answer with its reflected operator first), so
    "'<' not supported between 'int' and 'dict'" and "'>' ... 'dict' and 'int'" name the same
    failure of the same comparison."""
    r = repr(e.args)
    if isinstance(e, TypeError):
        m = _CMP.search(r)
        if m and m.group(1) in (">", ">="):
            flipped = {">": "<", ">=": "<="}[m.group(1)]
            r = r[:m.start()] + (f"'{flipped}' not supported between instances of "
                                 f"'{m.group(3)}' and '{m.group(2)}'") + r[m.end():]
    return r


def vkey(v: Any) -> Any:
    """Deep equality *and* type key for values."""
    if isinstance(v, BaseException):
        return ("exc", type(v).__name__, _canon_args(v))
    if isinstance(v, D):
        return ("D", vkey(v.x), vkey(v.y), v.z)
    if isinstance(v, P):
        return ("P", vkey(v.x), vkey(v.y))
    if isinstance(v, list):
        return ("list",) + tuple(vkey(x) for x in v)
    if isinstance(v, tuple):
        return ("tuple",) + tuple(vkey(x) for x in v)
    if isinstance(v, dict):
        return ("dict",) + tuple(sorted(((vkey(k), vkey(x)) for k, x in v.items()), key=repr))
    if isinstance(v, (set, frozenset)):
        return (type(v).__name__,) + tuple(sorted((vkey(x) for x in v), key=repr))
    return (type(v).__name__, repr(v))


def okey(o: tuple) -> Any:
    return (o[0], vkey(o[1]))


class Out:
    """Set of outcomes: ("v", value) | ("e", exception)."""

    def __init__(self, outs: Optional[list] = None):
        self.outs: list[tuple] = []
        self._keys: set = set()
        for o in outs or []:
            self.add(o)

    def add(self, o: tuple) -> None:
        k = okey(o)
        if k not in self._keys:
            self._keys.add(k)
            self.outs.append(o)
            if len(self.outs) > CAP:
                raise Loose()

    @property
    def vals(self) -> list:
        return [o[1] for o in self.outs if o[0] == "v"]

    @property
    def errs(self) -> list:
        return [o[1] for o in self.outs if o[0] == "e"]

    @staticmethod
    def value(v: Any) -> "Out":
        return Out([("v", v)])

    @staticmethod
    def error(e: BaseException) -> "Out":
        return Out([("e", e)])

    def keys(self) -> set:
        return set(self._keys)


def par(children: list[Out]) -> tuple[list[tuple], list]:
    """
    Parallel composition: returns (list of value tuples, list of possible errors).
    """
    errs: list = []
    for c in children:
        errs.extend(c.errs)
    if all(c.vals for c in children):
        combos = list(itertools.islice(itertools.product(*[c.vals for c in children]), CAP + 1))
        if len(combos) > CAP:
            raise Loose()
    else:
        combos = []
    return combos, errs


OPS = {
    "+": operator.add, "-": operator.sub, "*": operator.mul, "/": operator.truediv,
    "==": operator.eq, "<": operator.lt,
    "&": lambda a, b: a and b, "|": lambda a, b: a or b,
}


class _Let:
    def __init__(self, node, env):
        self.node, self.env = node, env


class Ref:
    def __init__(self, prog: Program, context: Optional[dict] = None):
        self.prog = prog
        self.root_context = context or {}
        self.calls = 0
        # observations for other oracles
        self.call_log: list[tuple] = []  # (task name, args tuple, ctx) for each call evaluated
        # (task name, bound args key) -> list of effective marker-option dicts (C27)
        self.option_log: dict = {}
        # (task name, bound args key) -> {param: (must ids, may ids)} upstream calls (C21)
        self.flow_log: dict = {}
        self.track_flow = False

    # -- entry ---------------------------------------------------------------
    def run(self) -> Out:
        main = self.prog.tasks[0]
        args = [Out.value(v) for v in self.prog.main_args]
        return self.apply(main, args, [], self.root_context, self.root_context, {})

    # -- task application ------------------------------------------------------
    def apply(self, t: TaskDef, args: list[Out], kwargs: list[tuple[str, Out]],
              caller_ctx: dict, job_ctx: dict, opts: dict) -> Out:
        """args/kwargs already evaluated in the caller's scope."""
        self.calls += 1
        if self.calls > 5000:
            raise Loose()
        # Options: definition < exported by ancestors < call-time (options / export_options).
        from .progs import OPT_KEYS

        inherited = caller_ctx.get("__exports__", {})
        def_opts = {k: v for k, v in t.options.items()
                    if k in OPT_KEYS or k in ("prov", "cache_scope")}
        def_opts.update(t.def_export)
        # call-time overrides are chained calls: the later one wins for a repeated key
        call_layers = [opts.get("options") or {}, opts.get("export") or {}]
        if opts.get("export_first"):
            call_layers.reverse()
        effective = {**def_opts, **inherited, **call_layers[0], **call_layers[1]}
        export_names = set(inherited) | set(opts.get("export") or {}) | set(t.def_export)
        if "prov" in t.options:
            export_names.add("prov")  # provenance recording is exported automatically
        job_ctx = dict(job_ctx)
        job_ctx["__exports__"] = {k: effective[k] for k in export_names if k in effective}
        self._pending_options = effective
        # Defaults for parameters not supplied are evaluated in the job's context.
        supplied = set(p[0] for p in t.params[: len(args)]) | {k for k, _ in kwargs}
        dnodes = [(name, d) for (name, kind, d) in t.params if name not in supplied and d is not None]
        # (default expressions see the job's *context*, but they are evaluated as children of
        # the calling job, so exported options come from the caller, not from this job)
        default_ctx = dict(job_ctx)
        default_ctx["__exports__"] = inherited
        douts = [(name, self.eval(d, {}, default_ctx)) for name, d in dnodes]
        children = args + [o for _, o in kwargs] + [o for _, o in douts]
        combos, errs = par(children)
        out = Out([("e", e) for e in errs])
        for combo in combos:
            env = {}
            names = [p[0] for p in t.params[: len(args)]] + [k for k, _ in kwargs] + [n for n, _ in douts]
            for n, v in zip(names, combo):
                env[n] = v
            akey = tuple((p[0], vkey(env[p[0]])) for p in t.params if p[0] in env)
            self.option_log.setdefault((t.name, akey), []).append(dict(effective))
            if self.track_flow:
                flows = dict(opts.get("__flows__") or {})
                for n, _ in douts:
                    flows[n] = (set(), set())  # defaults are recorded as plain values
                self.flow_log.setdefault(("vp." + t.name, akey), []).append(flows)
            for o in self.body(t, env, job_ctx).outs:
                out.add(o)
        return out

    def body(self, t: TaskDef, env: dict, ctx: dict) -> Out:
        self.call_log.append((t.name, tuple(vkey(env[p[0]]) for p in t.params if p[0] in env)))
        if t.raises:
            cls = proglib.ERRORS[t.raises[0]]
            return Out.error(cls(t.raises[1]))
        if t.is_async:
            # Sequential awaits; each forces evaluation; the first failure raises.
            envs = [(dict(env))]
            out = Out()
            pending = [(dict(env), 0)]
            while pending:
                e, i = pending.pop()
                if i == len(t.awaits):
                    for o in self.eval(t.body, e, ctx).outs:
                        out.add(o)
                    continue
                var, node = t.awaits[i]
                for o in self.eval(node, e, ctx).outs:
                    if o[0] == "e":
                        out.add(o)
                    else:
                        e2 = dict(e)
                        e2[var] = o[1]
                        pending.append((e2, i + 1))
            return out
        if getattr(t, "lets", None):
            # a local variable holding a lazy expression: every use evaluates to the same outcome
            env = dict(env)
            for var, node in t.lets:
                env[var] = _Let(node, dict(env))
        return self.eval(t.body, env, ctx)

    # -- expressions -------------------------------------------------------------
    def lift(self, children: list[Out], f) -> Out:
        combos, errs = par(children)
        out = Out([("e", e) for e in errs])
        for combo in combos:
            try:
                r = f(*combo)
            except Exception as e:  # python-level error inside an operator / helper
                out.add(("e", e))
                continue
            if isinstance(r, Out):
                for o in r.outs:
                    out.add(o)
            else:
                out.add(("v", r))
        return out

    def eval(self, node: Any, env: dict, ctx: dict) -> Out:
        k = node[0]
        E = lambda n: self.eval(n, env, ctx)
        if k == "lit":
            return Out.value(node[1])
        if k == "par":
            v = env[node[1]]
            if isinstance(v, _Let):
                return self.eval(v.node, v.env, ctx)
            return Out.value(v)
        if k == "call":
            _, tidx, args, kwargs, opts = node
            t = self.prog.tasks[tidx]
            job_ctx = ctx
            if opts.get("ctx") is not None:
                job_ctx = merge_dicts([ctx, opts["ctx"]])
            if t.options.get("_ctx") is not None:
                job_ctx = merge_dicts([ctx, t.options["_ctx"]])
            ev_opts = dict(opts)
            for grp in ("options", "export"):
                if opts.get(grp):
                    vals = {}
                    for name, v in opts[grp].items():
                        o = E(v) if isinstance(v, tuple) and v and isinstance(v[0], str) else Out.value(v)
                        if len(o.vals) != 1 or o.errs:
                            raise Loose()
                        vals[name] = o.vals[0]
                    ev_opts[grp] = vals
            if self.track_flow:
                names = [p[0] for p in t.params]
                flows = {}
                for pname, a in list(zip(names, args)) + list(kwargs):
                    flows[pname] = self.flow(a, env, ctx)
                ev_opts["__flows__"] = flows
            return self.apply(t, [E(a) for a in args], [(n, E(a)) for n, a in kwargs],
                              ctx, job_ctx, ev_opts)
        if k == "list":
            return self.lift([E(x) for x in node[1]], lambda *xs: list(xs))
        if k == "set":
            return self.lift([E(x) for x in node[1]], lambda *xs: set(xs))
        if k == "tuple":
            return self.lift([E(x) for x in node[1]], lambda *xs: tuple(xs))
        if k == "dict":
            keys = [key for key, _ in node[1]]
            return self.lift([E(x) for _, x in node[1]], lambda *xs: dict(zip(keys, xs)))
        if k == "nt":
            return self.lift([E(x) for x in node[1]], lambda x, y: P(x, y))
        if k == "dc":
            return self.lift([E(x) for x in node[1]], lambda x, y: D(x, y))
        if k == "op":
            from .progs import is_lazy_top

            if node[1] == "<" and not is_lazy_top(node[2]) and is_lazy_top(node[3]):
                # `plain < lazy`: Python asks the lazy right operand for its reflected
                # comparison, so what the scheduler evaluates is `right > left` (the same truth
                # value; a different TypeError message for ill-typed operands)
                return self.lift([E(node[2]), E(node[3])], lambda a, b: b > a)
            return self.lift([E(node[2]), E(node[3])], OPS[node[1]])
        if k == "idx":
            inner = node[1]
            # Indexing a container *display* is plain Python, done while the task body runs:
            # only the selected element is ever part of the returned expression.
            if inner[0] in ("list", "tuple") and isinstance(node[2], int):
                return E(inner[1][node[2]])
            if inner[0] == "dict":
                for key, n in inner[1]:
                    if key == node[2]:
                        return E(n)
            return self.lift([E(inner)], lambda c: c[node[2]])
        if k == "attr":
            inner = node[1]
            if inner[0] in ("nt", "dc") and node[2] in ("x", "y"):
                return E(inner[1][0 if node[2] == "x" else 1])
            return self.lift([E(inner)], lambda c: getattr(c, node[2]))
        if k == "cond":
            c = E(node[1])
            out = Out([("e", e) for e in c.errs])
            for v in c.vals:
                branch = node[2] if v else node[3]
                for o in E(branch).outs:
                    out.add(o)
            return out
        if k == "seq":
            # Serial: the first failing element's error; later ones are never started.
            partial: list[list] = [[]]
            out = Out()
            for x in node[1]:
                o = E(x)
                for e in o.errs:
                    if partial:
                        out.add(("e", e))
                partial = [p + [v] for p in partial for v in o.vals]
                if len(partial) > CAP:
                    raise Loose()
                if not partial:
                    break
            for p in partial:
                out.add(("v", p))
            return out
        if k == "catch":
            inner = E(node[1])
            cls = proglib.ERRORS[node[2]]
            rec = self.prog.tasks[node[3]]
            out = Out()
            for o in inner.outs:
                if o[0] == "v":
                    out.add(o)
                elif isinstance(o[1], cls):
                    for o2 in self.apply(rec, [Out.value(o[1])], [], ctx, ctx, {}).outs:
                        out.add(o2)
                else:
                    out.add(o)
            return out
        if k == "catchall":
            items = [E(x) for x in node[1]]
            cls = proglib.ERRORS[node[2]]
            rec = self.prog.tasks[node[3]] if node[3] is not None else None
            out = Out()
            combos = list(itertools.islice(itertools.product(*[it.outs for it in items]), CAP + 1))
            if len(combos) > CAP:
                raise Loose()
            for combo in combos:
                errors = [o[1] for o in combo if o[0] == "e"]
                values = [o[1] for o in combo]
                if not errors:
                    out.add(("v", values))
                elif rec is None:
                    out.add(("e", errors[0]))
                elif all(isinstance(e, cls) for e in errors):
                    for o2 in self.apply(rec, [Out.value(values)], [], ctx, ctx, {}).outs:
                        out.add(o2)
                else:
                    out.add(("e", next(e for e in errors if not isinstance(e, cls))))
            return out
        if k == "map":
            t = self.prog.tasks[node[1]]
            lst = E(node[2])
            out = Out([("e", e) for e in lst.errs])
            for values in lst.vals:
                outs = [self.apply(t, [Out.value(v)], [], ctx, ctx, {}) for v in values]
                for o in self.lift(outs, lambda *xs: list(xs)).outs:
                    out.add(o)
            return out
        if k == "flatmap":
            t = self.prog.tasks[node[1]]
            lst = E(node[2])
            out = Out([("e", e) for e in lst.errs])
            for values in lst.vals:
                outs = [self.apply(t, [Out.value(v)], [], ctx, ctx, {}) for v in values]
                for o in self.lift(outs, lambda *xs: [y for x in xs for y in x]).outs:
                    out.add(o)
            return out
        if k == "applyf":
            f = getattr(proglib, node[1])
            return self.lift([E(x) for x in node[2]], f)
        if k == "forkjoin":
            return E(node[1])
        if k == "tags":
            return E(node[1])
        if k == "noprov":
            return E(node[1])
        if k == "subrun":
            return E(node[1])
        if k == "mix":
            return self.lift([E(x) for x in node[2]], lambda *xs: proglib.mix(node[1], *xs))
        if k == "errcode":
            return self.lift([E(node[1])], proglib.errcode)
        if k == "getctx":
            return Out.value(get_context_value(ctx, node[1], node[2]))
        raise ValueError(k)


    # -- upstream dataflow of an argument expression (C21) -------------------------------
    def call_id(self, node: Any, env: dict, ctx: dict) -> tuple:
        """Identity of the call a ("call", ...) node denotes: (task fullname, bound args key)."""
        _, tidx, args, kwargs, opts = node
        t = self.prog.tasks[tidx]
        job_ctx = ctx
        if opts.get("ctx") is not None:
            job_ctx = merge_dicts([ctx, opts["ctx"]])
        vals = {}
        names = [p[0] for p in t.params]
        for pname, a in list(zip(names, args)) + list(kwargs):
            o = self.eval(a, env, ctx)
            if len(o.vals) != 1 or o.errs:
                raise Loose()
            vals[pname] = o.vals[0]
        for (pname, kind, d) in t.params:
            if pname not in vals and d is not None:
                o = self.eval(d, {}, job_ctx)
                if len(o.vals) != 1 or o.errs:
                    raise Loose()
                vals[pname] = o.vals[0]
        return ("vp." + t.name, tuple((p[0], vkey(vals[p[0]])) for p in t.params if p[0] in vals))

    def flow(self, node: Any, env: dict, ctx: dict) -> tuple[set, set]:
        """
        (must, may): calls whose result necessarily flows into the value of `node`, and calls
        that an enclosing control form evaluated on the way (e.g. a cond's condition).
        """
        k = node[0]
        F = lambda n: self.flow(n, env, ctx)

        def union(nodes):
            must, may = set(), set()
            for n in nodes:
                a, b = F(n)
                must |= a
                may |= b
            return must, may

        if k in ("lit", "par", "getctx", "mix", "errcode"):
            return set(), set()
        if k == "call":
            cid = self.call_id(node, env, ctx)
            return {cid}, {cid}
        if k in ("list", "tuple", "nt", "dc", "seq", "set"):
            return union(node[1])
        if k == "dict":
            return union([n for _, n in node[1]])
        if k == "op":
            return union([node[2], node[3]])
        if k == "idx":
            inner = node[1]
            if inner[0] in ("list", "tuple") and isinstance(node[2], int):
                return F(inner[1][node[2]])
            if inner[0] == "dict":
                for key, n in inner[1]:
                    if key == node[2]:
                        return F(n)
            return F(inner)
        if k == "attr":
            inner = node[1]
            if inner[0] in ("nt", "dc") and node[2] in ("x", "y"):
                return F(inner[1][0 if node[2] == "x" else 1])
            return F(inner)
        if k == "cond":
            c = self.eval(node[1], env, ctx)
            if len(c.vals) != 1 or c.errs:
                raise Loose()
            taken = node[2] if c.vals[0] else node[3]
            cm, cy = F(node[1])
            tm, ty = F(taken)
            am, ay = union([node[2], node[3]])
            # the condition only controls: it *may* be linked, the taken branch *must* be
            return tm, cy | ty | ay
        if k in ("catch",):
            return F(node[1])
        if k == "catchall":
            return union(node[1])
        if k in ("map", "flatmap"):
            m, y = F(node[2])
            if k == "flatmap":
                return {("redun.flat_map", None)}, {("redun.flat_map", None)}
            return m, y
        if k == "applyf":
            return {("redun.apply_func", None)}, {("redun.apply_func", None)}
        if k == "forkjoin":
            return {("vp.join_", None)}, {("vp.join_", None)}
        if k == "tags":
            return F(node[1])
        if k == "noprov":
            return {("redun.no_prov", None)}, {("redun.no_prov", None)}
        raise Loose()


# -- documented context rules (docs/source/context.md), re-implemented -------------


def merge_dicts(dicts: list[dict]) -> dict:
    """Deep merge; later keys win; nested mappings merged."""
    out: dict = {}
    for d in dicts:
        for k, v in d.items():
            if isinstance(v, dict) and isinstance(out.get(k), dict):
                out[k] = merge_dicts([out[k], v])
            elif isinstance(v, dict):
                out[k] = merge_dicts([v])
            else:
                out[k] = v
    return out


def get_context_value(ctx: dict, path: str, default: Any) -> Any:
    cur: Any = ctx
    for seg in path.split("."):
        if not isinstance(cur, dict) or seg not in cur:
            return default
        cur = cur[seg]
    return cur


def outcome_of_real(kind: str, value: Any) -> tuple:
    """Outcome key of a real scheduler run: kind is 'v' or 'e'."""
    return okey((kind, value))
