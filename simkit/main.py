"""Entry point: python -m simkit.main <ID> [options]."""

import importlib
import sys


def main() -> int:
    if len(sys.argv) < 2:
        print("usage: check <ID> [--tier quick|thorough] [--replay F]", file=sys.stderr)
        return 2
    pid = sys.argv[1].upper()
    mod = importlib.import_module(f"checks.{pid.lower()}")
    from simkit.runner import main as run_main

    return run_main(mod.CHECK)


if __name__ == "__main__":
    sys.exit(main())
