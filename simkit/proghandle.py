"""Handle class used by generated handle-passing programs."""

from redun import Handle


class VH(Handle):
    def __init__(self, name, namespace=None):
        self.note = name
