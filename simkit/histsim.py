"""
Engine B kit: persistence faults and histories on top of engine A.

* DbFaults: crash (SimCrash) before the k-th commit; transient OperationalError at the
  j-th statement (r consecutive times); both through SQLAlchemy's own event API.
* program edits between executions (value-changing, neutral, version bumps, reverts).
* normalised database dumps for equality / conservation oracles.
"""

from __future__ import annotations

import copy
from typing import Any, Callable, Optional

from . import enginea, schedsim
from .choices import Choices
from .dbview import DbView
from .progs import Program, TaskDef
from .schedsim import SimCrash


class DbFaultPlan:
    def __init__(self, crash_at_commit: Optional[int] = None, error_at_stmt: Optional[int] = None,
                 error_repeat: int = 1):
        self.crash_at_commit = crash_at_commit
        self.error_at_stmt = error_at_stmt
        self.error_repeat = error_repeat

    def describe(self) -> dict:
        return {k: v for k, v in self.__dict__.items() if v is not None}


class DbFaults:
    """Counts commits / statements on a backend's engine and injects the planned fault."""

    def __init__(self, plan: Optional[DbFaultPlan] = None):
        self.plan = plan or DbFaultPlan()
        self.commits = 0
        self.stmts = 0
        self.errors_raised = 0
        self.crashed = False
        self.crash_site: Optional[str] = None
        self.error_site: Optional[str] = None
        self.commit_sites: list[str] = []
        self.world = None
        self._engine = None

    def attach(self, engine, world=None) -> None:
        from sqlalchemy import event

        self._engine = engine
        self.world = world
        event.listen(engine, "commit", self._on_commit)
        event.listen(engine, "before_cursor_execute", self._on_execute)

    def detach(self) -> None:
        from sqlalchemy import event

        if self._engine is not None:
            try:
                event.remove(self._engine, "commit", self._on_commit)
                event.remove(self._engine, "before_cursor_execute", self._on_execute)
            except Exception:
                pass

    @staticmethod
    def _site() -> str:
        """Name of the innermost redun function on the stack (for signatures / traces)."""
        import sys

        f = sys._getframe(2)
        names = []
        while f is not None:
            fn = f.f_code.co_filename
            if "/redun/" in fn and "/site-packages/" not in fn:
                names.append(f.f_code.co_name)
                if len(names) >= 2:
                    break
            f = f.f_back
        return "<-".join(names) if names else "?"

    def _on_commit(self, conn) -> None:
        self.commits += 1
        site = self._site()
        self.commit_sites.append(site)
        if self.world is not None:
            self.world.event("db-commit", self.commits, site)
        if self.plan.crash_at_commit is not None and self.commits == self.plan.crash_at_commit:
            self.crashed = True
            self.crash_site = site
            if self.world is not None:
                self.world.dead = True
                self.world.event("CRASH", self.commits, site)
            raise SimCrash(f"process dies before commit {self.commits} ({site})")

    def _on_execute(self, conn, cursor, statement, parameters, context, executemany) -> None:
        self.stmts += 1
        p = self.plan
        if p.error_at_stmt is not None and p.error_at_stmt <= self.stmts < p.error_at_stmt + p.error_repeat:
            import sqlalchemy.exc

            self.errors_raised += 1
            self.error_site = self._site()
            if self.world is not None:
                self.world.event("db-error", self.stmts, self.error_site)
            raise sqlalchemy.exc.OperationalError(
                statement, parameters, Exception("simulated: server closed the connection"))


# ---------------------------------------------------------------------------
# Program edits
# ---------------------------------------------------------------------------


def clone_program(prog: Program) -> Program:
    return copy.deepcopy(prog)


def editable_tasks(prog: Program) -> list[TaskDef]:
    return [t for t in prog.tasks
            if (t.leaf and not t.recover) or (not t.leaf and not t.is_async and t.ret == "int")]


def apply_variant(t: TaskDef, variant: int) -> None:
    """Value-changing edit (variant 0 = original body)."""
    if t.leaf:
        # leaf bodies are ('mix', tag, ...) possibly wrapped in a container
        def retag(node):
            if isinstance(node, tuple) and node and node[0] == "mix":
                base = str(node[1]).split("#")[0]
                return ("mix", base + (f"#{variant}" if variant else ""), node[2])
            if isinstance(node, tuple):
                return tuple(retag(x) if isinstance(x, (tuple, list)) else x for x in node)
            if isinstance(node, list):
                return [retag(x) if isinstance(x, (tuple, list)) else x for x in node]
            return node

        t.body = retag(t.body)
    else:
        orig = getattr(t, "body_orig", None)
        if orig is None:
            orig = t.body_orig = t.body
        t.body = orig if not variant else ("op", "+", orig, ("lit", variant))
    t.variant = variant


def task_semantics_key(t: TaskDef) -> tuple:
    return (getattr(t, "variant", 0),)


# ---------------------------------------------------------------------------
# Normalised dumps
# ---------------------------------------------------------------------------

TIME_COLS = {"start_time", "end_time", "timestamp", "updated_time"}


def normalised_dump(db: str, tables: Optional[list[str]] = None, drop_cols: Optional[set] = None,
                    drop_value_types: tuple = ()) -> dict:
    """Table -> sorted list of row tuples without time columns."""
    from .dbview import TABLES

    drop = TIME_COLS | (drop_cols or set())
    view = DbView(db)
    try:
        out = {}
        skip_values = set()
        if drop_value_types:
            for r in view.rows("value"):
                if r["type"] in drop_value_types:
                    skip_values.add(r["value_hash"])
        for t in tables or TABLES:
            rows = []
            for r in view.rows(t):
                if t == "value" and r["value_hash"] in skip_values:
                    continue
                rows.append(tuple((k, r[k]) for k in sorted(r) if k not in drop))
            out[t] = sorted(rows, key=repr)
        return out
    finally:
        view.close()


def logical_reference_violations(db: str) -> list[tuple]:
    """Reference integrity beyond SQLite's own foreign keys."""
    view = DbView(db)
    try:
        bad: list[tuple] = [("fk",) + tuple(r) for r in view.fk_violations()]
        values = {r["value_hash"]: r for r in view.rows("value")}
        tasks = {r["hash"] for r in view.rows("task")}
        files = {r["value_hash"] for r in view.rows("file")}
        nodes = {r["call_hash"] for r in view.rows("call_node")}
        jobs = {r["id"] for r in view.rows("job")}
        execs = {r["id"] for r in view.rows("execution")}
        for vh, r in values.items():
            if r["type"] == "redun.Task" and vh not in tasks:
                bad.append(("task-value-without-task-row", vh))
            if r["type"] in ("redun.File",) and vh not in files:
                bad.append(("file-value-without-file-row", vh))
        for s in view.rows("subvalue"):
            if s["value_hash"] not in values or s["parent_value_hash"] not in values:
                bad.append(("subvalue-dangling", s["value_hash"]))
        for t in view.rows("tag"):
            et, eid = t["entity_type"], t["entity_id"]
            ok = {"Execution": execs, "Job": jobs, "CallNode": nodes, "Value": values,
                  "Task": tasks}.get(et)
            if ok is not None and eid not in ok and eid != "":
                bad.append(("tag-on-missing-entity", et, eid, t["key"]))
        for e in view.rows("execution"):
            if e["job_id"] not in jobs:
                bad.append(("execution-root-job-missing", e["id"]))
        return bad
    finally:
        view.close()


# ---------------------------------------------------------------------------
# One execution with faults
# ---------------------------------------------------------------------------


def run_with_faults(sched_seed: int, prog: Any, db_path: str, session: enginea.ProgramSession,
                    plan: Optional[DbFaultPlan] = None, limits: Optional[dict] = None,
                    run_kwargs: Optional[dict] = None, policy: Optional[dict] = None,
                    extra_setup: Optional[Callable] = None, step_cap: int = 20000,
                    ns: Optional[int] = None):
    """
    One simulated execution whose schedule is a pure function of `sched_seed` (so that a
    crash sweep re-runs the *same* schedule with the crash point moved).
    Returns (RunResult, DbFaults).
    """
    faults = DbFaults(plan)

    def setup(w, rec, sched):
        w.dead = False
        faults.attach(sched.backend.engine, w)
        if extra_setup:
            extra_setup(w, rec, sched)

    ch = Choices(seed=sched_seed)
    try:
        res = enginea.simulate(ch, prog, db_path=db_path, session=session, setup=setup,
                               limits=limits, run_kwargs=run_kwargs, policy=policy,
                               step_cap=step_cap, ns=ns)
    finally:
        faults.detach()
    return res, faults


def subvalue_link_violations(db_path: str, only: Optional[set] = None) -> list[tuple]:
    """Every recorded (non-error) value that has subvalues is linked to exactly those.
    `only`: restrict the audit to these value hashes (e.g. the values an execution recorded)."""
    from .dbview import DbView

    view = DbView(db_path)
    backend = schedsim.open_backend(db_path)
    bad = []
    try:
        reg = backend.type_registry
        subs: dict = {}
        for s in view.rows("subvalue"):
            subs.setdefault(s["parent_value_hash"], set()).add(s["value_hash"])
        for row in view.rows("value"):
            if row["type"] in ("redun.ErrorValue", "redun.Traceback"):
                continue
            if only is not None and row["value_hash"] not in only:
                continue
            try:
                value, ok = backend.get_value(row["value_hash"])
            except Exception:
                continue
            if not ok:
                continue
            want = {reg.get_hash(sv) for sv in reg.iter_subvalues(value)}
            have = subs.get(row["value_hash"], set())
            if want != have:
                bad.append(("subvalue-links-" + ("missing" if want - have else "extra"), row["type"]))
    finally:
        schedsim.close_backend(backend)
        view.close()
    return bad
