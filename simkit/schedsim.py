"""
Engine A kit: the real redun Scheduler / LocalExecutor / RedunBackendDb running under a
simulator that owns every scheduling decision.

Seams (module attributes, patched for the duration of `installed()`):
  redun.scheduler.queue          -> SimQueue factory (scheduling point = get())
  redun.executors.local.ThreadPoolExecutor / ProcessPoolExecutor -> SimPool
  redun.executors.local.threading / asyncio -> shims (async thread -> stepped SimLoop)
  redun.scheduler.time, redun.backends.db.time, redun.utils.datetime -> SimClock
  redun.scheduler.uuid, redun.backends.db.uuid -> counter-based uuids
"""

from __future__ import annotations

import asyncio
import contextlib
import datetime as _dt
import hashlib
import os
import pickle
import queue as _queue
import shutil
import threading
import types
import uuid as _uuid
from asyncio import events as _aio_events
from concurrent.futures import Future
from typing import Any, Callable, Optional

from .choices import Choices


class SimAbort(BaseException):
    """Unwinds the simulated process (step cap, deadlock, crash)."""


class SimStepCap(SimAbort):
    pass


class SimDeadlock(SimAbort):
    pass


class SimCrash(SimAbort):
    """The simulated process dies here (only durable state survives)."""


# ---------------------------------------------------------------------------
# Clock
# ---------------------------------------------------------------------------


class SimClock:
    EPOCH = 1_700_000_000.0

    def __init__(self) -> None:
        self.now = self.EPOCH
        self.tick = 0.001  # every read advances (monotone, distinct timestamps)
        self.frozen = False  # fault: clock stands still
        self.quantum = 0.0  # coarse clock: reads within one quantum return the same instant

    def time(self) -> float:
        if not self.frozen:
            self.now += self.tick
        if self.quantum:
            return self.EPOCH + int((self.now - self.EPOCH) / self.quantum) * self.quantum
        return self.now

    def advance(self, dt: float) -> None:
        if dt > 0:
            self.now += dt

    def advance_to(self, t: float) -> None:
        if t > self.now:
            self.now = t

    def sleep(self, dt: float) -> None:
        self.advance(dt)

    def utcnow(self) -> _dt.datetime:
        return _dt.datetime.fromtimestamp(self.time(), _dt.timezone.utc)

    @property
    def elapsed(self) -> float:
        return self.now - self.EPOCH


# ---------------------------------------------------------------------------
# World: per-run simulator state
# ---------------------------------------------------------------------------


class InFlight:
    __slots__ = ("seq", "future", "thunk", "mode", "label", "queue", "started", "job_id", "pool")

    def __init__(self, seq, future, thunk, mode, label, q, job_id=None, pool=None):
        self.pool = pool
        self.seq = seq
        self.future = future
        self.thunk = thunk
        self.mode = mode
        self.label = label
        self.queue = q
        self.started = False
        self.job_id = job_id


class World:
    """
    One simulated process world.  `policy` is drawn once per run (swarm style).
    """

    def __init__(self, ch: Choices, step_cap: int = 20000, policy: Optional[dict] = None,
                 ns: int = 0):
        self.ch = ch
        self.ns = ns  # namespace for generated uuids (distinct per execution on one backend)
        self.clock = SimClock()
        self.step_cap = step_cap
        self.steps = 0
        self.seq = 0  # global event sequence number
        self.log: list[tuple] = []  # event history
        self.inflight: list[InFlight] = []
        self.loops: list["SimLoop"] = []
        self.uuid_counter = 0
        self.max_inflight = 0
        self.deliveries = 0
        self.ticks = 0
        self.deadlock = False
        self.policy = policy or self.draw_policy(ch)
        self.on_handoff: list[Callable] = []
        self.hooks: dict[str, list[Callable]] = {}
        # schedule signature: sequence of (action kinds) for distinct-interleaving measure
        self.sched_sig = hashlib.sha256()
        self.monitor_after_event: Optional[Callable[[], None]] = None
        self.dead = False  # set when the simulated process has crashed
        self.stale_deliveries = 0
        self.in_shutdown = False

    @staticmethod
    def draw_policy(ch: Choices) -> dict:
        return {
            # how completions are interleaved with queued scheduler events
            # 0 fifo-ish random, 1 eager (deliver as soon as possible), 2 lazy (only when idle)
            "delivery": ch.choice(3, "policy.delivery"),
            # which in-flight job completes: 0 random, 1 fifo, 2 lifo
            "order": ch.choice(3, "policy.order"),
            # early status-interval ticks (buggify)
            "ticks": ch.choice(2, "policy.ticks"),
            # virtual duration distribution: 0 zero, 1 equal, 2 exponential-ish, 3 bimodal
            "durations": ch.choice(4, "policy.durations"),
            # when a pool worker starts the task body: 0, 1 at some later moment (the body runs
            # when its completion is delivered); 2 a coin per job; 3 at once, before the
            # scheduler thread has executed the statement that follows submit() (the pool thread
            # wins the race) -- its completion is still delivered later
            "start": ch.choice(4, "policy.start"),
        }

    def event(self, kind: str, *data: Any) -> int:
        self.seq += 1
        self.log.append((self.seq, round(self.clock.now - SimClock.EPOCH, 6), kind) + data)
        return self.seq

    def digest(self) -> str:
        h = hashlib.sha256()
        for e in self.log:
            h.update(repr(e).encode())
            h.update(b"\n")
        return h.hexdigest()[:24]

    def next_uuid(self) -> _uuid.UUID:
        self.uuid_counter += 1
        h = hashlib.md5(f"simuuid-{self.ns}-{self.uuid_counter}".encode()).digest()
        return _uuid.UUID(bytes=h, version=4)

    def draw_duration(self) -> float:
        p = self.policy["durations"]
        if p == 0:
            return 0.0
        if p == 1:
            return 1.0
        if p == 2:
            return [0.01, 0.1, 0.5, 1.0, 3.0, 10.0, 45.0][self.ch.choice(7, "duration")]
        return 0.05 if self.ch.choice(2, "duration") == 0 else 30.0


CURRENT: Optional[World] = None


def world() -> World:
    assert CURRENT is not None, "no simulated world installed"
    return CURRENT


# ---------------------------------------------------------------------------
# SimQueue: replacement for queue.Queue inside redun.scheduler
# ---------------------------------------------------------------------------


class SimQueue:
    def __init__(self, maxsize: int = 0):
        self.items: list[Callable] = []
        self.owner_thread = threading.get_ident()

    @property
    def world(self) -> World:
        # Looked up dynamically: a Scheduler (and hence its queue) may be reused for several
        # executions, each simulated in its own World.
        return world()

    # queue.Queue API used by the scheduler
    def put(self, item: Callable, block: bool = True, timeout: Optional[float] = None) -> None:
        self.items.append(item)

    def empty(self) -> bool:
        return not self.items

    def qsize(self) -> int:
        return len(self.items)

    def get(self, block: bool = True, timeout: Optional[float] = None) -> Callable:
        w = self.world
        ch = w.ch
        while True:
            w.steps += 1
            if w.steps > w.step_cap:
                raise SimStepCap(f"step cap {w.step_cap} exceeded")
            if w.monitor_after_event:
                w.monitor_after_event()
            mine = [f for f in w.inflight if f.queue is self]
            loops = [lp for lp in w.loops if lp.has_work()]
            can_pop = bool(self.items)
            deliverable = bool(mine) or bool(loops)
            if not can_pop and not deliverable:
                w.deadlock = True
                w.event("deadlock")
                raise SimDeadlock("queue empty, nothing in flight, workflow promise pending")

            # Decide: pop the head, or let something external happen first.
            pol = w.policy["delivery"]
            if can_pop and deliverable:
                if pol == 1:
                    do_pop = False  # eager: everything external happens first
                elif pol == 2:
                    do_pop = True  # lazy: externals only when idle
                else:
                    do_pop = ch.choice(2, "pop-or-deliver") == 0
            else:
                do_pop = can_pop
            if do_pop:
                w.sched_sig.update(b"p")
                return self.items.pop(0)

            # Early tick of the status timer (only legal when the queue is empty).
            if (
                not can_pop
                and timeout is not None
                and w.policy["ticks"]
                and ch.coin(0.05, "early-tick")
            ):
                w.clock.advance(timeout)
                w.ticks += 1
                w.event("tick")
                w.sched_sig.update(b"t")
                raise _queue.Empty()

            # Pick an external action.
            nact = len(mine) + len(loops)
            order = w.policy["order"]
            if order == 1 or nact == 1:
                k = 0
            elif order == 2:
                k = nact - 1
            else:
                k = ch.choice(nact, "which-external")
            if k < len(mine):
                self._deliver(mine[k])
            else:
                lp = loops[k - len(mine)]
                w.sched_sig.update(b"a")
                lp.step()

    def _deliver(self, f: InFlight) -> None:
        w = self.world
        w.inflight.remove(f)
        w.clock.advance(w.draw_duration())
        w.deliveries += 1
        w.sched_sig.update(b"d%d" % f.seq)
        w.event("deliver", f.label)
        f.thunk()  # runs the task function and settles the future (callbacks -> scheduler.put)


class _QueueModuleShim(types.SimpleNamespace):
    pass


# ---------------------------------------------------------------------------
# Pools
# ---------------------------------------------------------------------------


def _run_in_thread(fn: Callable[[], Any]) -> tuple[bool, Any]:
    """
    Run fn in a short-lived real thread (joined immediately).  Keeps thread-locals
    (current scheduler) and context-vars of the caller untouched, as a pool thread would.
    """
    box: list = []

    def target():
        try:
            box.append((True, fn()))
        except SimAbort as e:  # propagate simulator aborts to the caller
            box.append(("abort", e))
        except BaseException as e:  # noqa
            box.append((False, e))

    t = threading.Thread(target=target, name="simpool-worker")
    t.start()
    t.join()
    ok, val = box[0]
    if ok == "abort":
        raise val
    return ok, val


class SimPool:
    """Stands in for ThreadPoolExecutor / ProcessPoolExecutor inside redun.executors.local."""

    MODE = "thread"

    def __init__(self, max_workers: Optional[int] = None, mp_context: Any = None, **kw: Any):
        self.world = world()
        self.max_workers = max_workers
        self._shutdown = False

    def submit(self, fn: Callable, *args: Any, **kwargs: Any) -> Future:
        import redun.scheduler as rs

        w = self.world
        assert not self._shutdown, "submit after shutdown"
        sched = rs.get_current_scheduler(required=False)
        assert sched is not None, "pool.submit outside a running scheduler"
        q = sched.events_queue
        fut: Future = Future()
        fut.set_running_or_notify_cancel()
        w.seq += 1
        seq = w.seq
        label = f"{self.MODE}:{args[2] if len(args) > 2 else getattr(fn, '__name__', '?')}#{seq}"
        mode = self.MODE

        if mode == "process":
            # Pickle boundary of concurrent.futures.process (call item goes out pickled).
            try:
                payload = pickle.dumps((fn, args, kwargs))
            except BaseException as e:  # noqa
                # Real pool: the queue feeder thread sets the exception on the future.
                payload = None
                pickling_error = e

        def body() -> tuple:
            if mode == "process":
                if payload is None:
                    return False, pickling_error
                fn2, args2, kwargs2 = pickle.loads(payload)
                ok, val = _run_in_thread(lambda: fn2(*args2, **kwargs2))
                try:
                    blob = pickle.dumps((ok, val))
                    ok, val = pickle.loads(blob)
                except BaseException as e:  # result not picklable
                    ok, val = False, e
                return ok, val
            return _run_in_thread(lambda: fn(*args, **kwargs))

        start = w.policy.get("start", 0)
        early: list = []
        if start == 3 or (start == 2 and w.ch.coin(0.5, "start-at-once")):
            w.event("body-at-submit", label)
            early.append(body())

        def thunk() -> None:
            ok, val = early[0] if early else body()
            if ok:
                fut.set_result(val)
            else:
                fut.set_exception(val)

        inf = InFlight(seq, fut, thunk, mode, label, q, pool=self)
        w.inflight.append(inf)
        w.max_inflight = max(w.max_inflight, len(w.inflight))
        w.event("handoff", label)
        return fut

    def shutdown(self, wait: bool = True, **kw: Any) -> None:
        """
        Like the real pools, shutdown(wait=True) lets work that was already handed over run
        to completion: the done-callbacks fire and put (now stale) events on the scheduler's
        queue.  After a simulated crash nothing runs any more.
        """
        self._shutdown = True
        w = self.world
        if getattr(w, "dead", False):
            return
        mine = [f for f in w.inflight if f.pool is self]
        w.in_shutdown = True
        try:
            for f in mine:
                w.inflight.remove(f)
                w.event("deliver-at-shutdown", f.label)
                w.stale_deliveries = getattr(w, "stale_deliveries", 0) + 1
                f.thunk()
        finally:
            w.in_shutdown = False


class SimThreadPool(SimPool):
    MODE = "thread"


class SimProcessPool(SimPool):
    MODE = "process"


# ---------------------------------------------------------------------------
# Async loop
# ---------------------------------------------------------------------------


class _DummySelector:
    def select(self, timeout=None):
        return []

    def close(self):
        pass


class SimLoop(asyncio.BaseEventLoop):
    def __init__(self) -> None:
        super().__init__()
        self._world = world()
        self._selector = _DummySelector()
        self._sim_stopped = False
        self._world.loops.append(self)

    def time(self) -> float:
        return self._world.clock.now

    def _process_events(self, event_list) -> None:
        pass

    def _write_to_self(self) -> None:
        pass

    def has_work(self) -> bool:
        if self._sim_stopped:
            return False
        if self._ready:
            return True
        return any(not h._cancelled for h in self._scheduled)

    def step(self) -> None:
        w = self._world
        if not self._ready and self._scheduled:
            w.clock.advance_to(self._scheduled[0]._when)
        w.event("aio-step", len(self._ready))
        old = _aio_events._get_running_loop()
        _aio_events._set_running_loop(self)
        try:
            self._run_once()
        finally:
            _aio_events._set_running_loop(old)

    def run_forever(self) -> None:
        # Stepping is driven by the simulator.
        return

    def stop(self) -> None:
        self._sim_stopped = True

    def is_running(self) -> bool:
        return False


class _SimThread:
    """threading.Thread stand-in for LocalExecutor's async worker: runs target inline."""

    def __init__(self, target=None, daemon=None, name=None, args=(), kwargs=None):
        self._target = target
        self._args = args
        self._kwargs = kwargs or {}
        self._alive = False
        self.ident = -1
        self.daemon = daemon

    def start(self) -> None:
        self._alive = True
        self._target(*self._args, **self._kwargs)

    def is_alive(self) -> bool:
        return self._alive

    def join(self, timeout=None) -> None:
        self._alive = False


def _make_threading_shim() -> types.SimpleNamespace:
    ns = types.SimpleNamespace(**{k: getattr(threading, k) for k in dir(threading)
                                  if not k.startswith("__")})
    ns.Thread = _SimThread
    return ns


def _make_asyncio_shim() -> types.SimpleNamespace:
    ns = types.SimpleNamespace(**{k: getattr(asyncio, k) for k in dir(asyncio)
                                  if not k.startswith("__")})
    ns.new_event_loop = lambda: SimLoop()
    ns.set_event_loop = lambda loop: None
    return ns


# ---------------------------------------------------------------------------
# Installation of the seams
# ---------------------------------------------------------------------------


class _SimDatetime(_dt.datetime):
    @classmethod
    def now(cls, tz=None):
        return _dt.datetime.fromtimestamp(world().clock.time(), tz)


@contextlib.contextmanager
def installed(w: World):
    """Patch every seam for the duration of one simulated run."""
    global CURRENT
    import redun.backends.db as rdb
    import redun.executors.local as rlocal
    import redun.scheduler as rs
    import redun.utils as rutils

    saved = []

    def patch(mod, name, value):
        saved.append((mod, name, getattr(mod, name)))
        setattr(mod, name, value)

    prev_world = CURRENT
    CURRENT = w
    clock = w.clock
    time_shim = types.SimpleNamespace(time=clock.time, sleep=clock.sleep,
                                      monotonic=clock.time)
    uuid_shim = types.SimpleNamespace(uuid4=w.next_uuid, UUID=_uuid.UUID)
    try:
        patch(rs, "queue", _QueueModuleShim(Queue=SimQueue, Empty=_queue.Empty))
        patch(rs, "time", time_shim)
        patch(rs, "uuid", uuid_shim)
        patch(rdb, "time", time_shim)
        patch(rdb, "uuid", uuid_shim)
        patch(rutils, "datetime", _SimDatetime)
        patch(rlocal, "ThreadPoolExecutor", SimThreadPool)
        patch(rlocal, "ProcessPoolExecutor", SimProcessPool)
        patch(rlocal, "threading", _make_threading_shim())
        patch(rlocal, "asyncio", _make_asyncio_shim())
        yield w
    finally:
        for mod, name, value in reversed(saved):
            setattr(mod, name, value)
        CURRENT = prev_world
        # The scheduler thread-local must not leak between runs.
        try:
            rs.set_current_scheduler(None)
        except Exception:
            pass


# ---------------------------------------------------------------------------
# Backend helpers
# ---------------------------------------------------------------------------

_TEMPLATE: Optional[str] = None


def scratch_dir() -> str:
    d = os.environ.get("VERIF_SCRATCH")
    if not d:
        base = "/dev/shm" if os.path.isdir("/dev/shm") else "/tmp"
        d = os.path.join(base, f"verif-{os.getpid()}", "w0")
    os.makedirs(d, exist_ok=True)
    return d


def template_db() -> str:
    """A migrated, empty redun database; created once per process."""
    global _TEMPLATE
    if _TEMPLATE and os.path.exists(_TEMPLATE):
        return _TEMPLATE
    shared = os.environ.get("VERIF_TEMPLATE_DB")
    if shared and os.path.exists(shared):  # made once by the batch runner before forking
        _TEMPLATE = shared
        return shared
    from redun.backends.db import RedunBackendDb

    path = os.path.join(scratch_dir(), "template.db")
    if os.path.exists(path):
        os.unlink(path)
    b = RedunBackendDb(db_uri=f"sqlite:///{path}")
    b.load()
    b.session.close()
    b.engine.dispose()
    _TEMPLATE = path
    return path


_GENERATION = 0


def reset_generation() -> None:
    global _GENERATION
    _GENERATION = 0


def fresh_db(name: str) -> str:
    path = os.path.join(scratch_dir(), name)
    shutil.copyfile(template_db(), path)
    return path


def next_generation(path: str = "") -> int:
    """
    Number of simulated executions started in this case so far: the namespace of generated
    uuids, distinct per execution across *all* backends of a case (records may be
    transferred between repositories, so ids must not collide).
    """
    global _GENERATION
    _GENERATION += 1
    return _GENERATION


def open_backend(path: str, config: Optional[dict] = None):
    """Real RedunBackendDb on an already migrated SQLite file (no alembic run)."""
    from redun.backends.db import RedunBackendDb
    from redun.config import create_config_section

    cfg = {"automigrate": "False", "db_retries_backoff": "1.0"}
    cfg.update(config or {})
    b = RedunBackendDb(db_uri=f"sqlite:///{path}", config=create_config_section(cfg))
    b.load(migrate=False)
    return b


def close_backend(b) -> None:
    try:
        if b.session is not None:
            b.session.close()
    except BaseException:
        pass
    try:
        if b.engine is not None:
            b.engine.dispose()
    except BaseException:
        pass


def make_scheduler(backend, limits: Optional[dict] = None, config: Optional[dict] = None,
                   context: Optional[dict] = None):
    """Real Scheduler with the default thread + process LocalExecutors."""
    import json

    import redun.scheduler as rs
    from redun.config import Config

    cfgd: dict = {}
    if limits:
        cfgd["limits"] = {k: str(v) for k, v in limits.items()}
    if context is not None:
        cfgd.setdefault("scheduler", {})["context"] = json.dumps(context)
    if config:
        for k, v in config.items():
            cfgd.setdefault(k, {}).update(v)
    cfg = Config(cfgd) if cfgd else Config()
    s = rs.Scheduler(config=cfg, backend=backend)
    return s


class QuietLogger:
    def log(self, *a, **k):
        pass

    def warning(self, *a, **k):
        pass

    def error(self, *a, **k):
        pass

    def info(self, *a, **k):
        pass

    def debug(self, *a, **k):
        pass
