"""Independent read-only view of a redun SQLite database (plain sqlite3, no redun code)."""

from __future__ import annotations

import sqlite3
from typing import Any

TABLES = ["task", "value", "call_node", "file", "handle", "subvalue", "argument", "call_edge",
          "call_subtree_task", "handle_edge", "argument_result", "execution", "evaluation", "job",
          "tag", "tag_edit"]


class DbView:
    def __init__(self, path: str):
        self.path = path
        self.con = sqlite3.connect(f"file:{path}?mode=ro", uri=True)
        self.con.row_factory = sqlite3.Row

    def rows(self, table: str, where: str = "", args: tuple = ()) -> list[dict]:
        q = f'SELECT * FROM "{table}"' + (f" WHERE {where}" if where else "")
        return [dict(r) for r in self.con.execute(q, args)]

    def one(self, table: str, where: str, args: tuple = ()) -> Any:
        r = self.rows(table, where, args)
        return r[0] if r else None

    def fk_violations(self) -> list[tuple]:
        return [tuple(r) for r in self.con.execute("PRAGMA foreign_key_check")]

    def count(self, table: str) -> int:
        return self.con.execute(f'SELECT COUNT(*) FROM "{table}"').fetchone()[0]

    def close(self) -> None:
        self.con.close()
