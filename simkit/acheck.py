"""Shared plumbing for engine-A (schedsim) checks."""

from __future__ import annotations

import logging
from typing import Any, Optional

from . import schedsim
from .enginea import RunResult
from .progs import Program, emit
from .runner import Check, RunOutcome
from .schedsim import World

REAL_A = [
    "redun.scheduler.Scheduler (event loop, evaluate, _evaluate_apply, _exec_job_main_thread, "
    "done/resolve/reject/finalize, limits)",
    "redun.scheduler scheduler tasks (cond, catch, catch_all, apply_tags, fork/join_thread, subrun)",
    "redun.functools (seq, map_, flat_map, apply_func, no_prov)",
    "redun.promise.Promise", "redun.scheduler.Job", "redun.task.Task / TaskRegistry",
    "redun.expression.*", "redun.value.TypeRegistry hashing / serialization",
    "redun.executors.local.LocalExecutor._submit / exec_task / on_done",
    "redun.backends.db.RedunBackendDb on SQLite (file on tmpfs)",
]
STUB_A = [
    "thread pool: run-at-delivery in a joined real thread; completion order chosen by the simulator",
    "process pool: pickle boundary only (call item and result pickled), no fork",
    "asyncio worker thread: virtual-time BaseEventLoop stepped by the simulator",
    "events queue: SimQueue (FIFO kept; arrival moments of external completions simulated)",
    "wall clock, uuid4: simulated (SimClock, counter-based uuids)",
]


class EngineACheck(Check):
    USES_TEMPLATE_DB = True
    COMPONENTS_REAL = REAL_A
    COMPONENTS_STUB = STUB_A
    ASSUMPTIONS = [
        "task functions are pure and terminate (generated programs)",
        "SQLite transactions are atomic; SQLAlchemy, pickle and CPython are trusted",
        "executor completions may arrive at any moment between two scheduler events; the events "
        "queue itself is FIFO",
    ]

    def setup(self) -> None:
        import warnings

        logging.disable(logging.CRITICAL)
        warnings.filterwarnings("ignore", category=RuntimeWarning)
        schedsim.template_db()

    def begin_case(self) -> None:
        schedsim.reset_generation()

    def fill(self, out: RunOutcome, w: World, prog: Optional[Program],
             extra_key: str = "") -> None:
        out.steps += w.steps
        out.sim_time += w.clock.elapsed
        out.digest = (out.digest + w.digest())[-48:]
        sig = w.sched_sig.hexdigest()[:12]
        pk = prog.key() if prog is not None else ""
        out.key = f"{pk}/{sig}/{extra_key}"
        if w.max_inflight >= 2:
            out.nontrivial = True
        out.probe("runs_with_2plus_inflight", 1 if w.max_inflight >= 2 else 0)
        out.extra["deliveries"] = out.extra.get("deliveries", 0) + w.deliveries
        out.extra["status_ticks"] = out.extra.get("status_ticks", 0) + w.ticks

    def sample(self, prog: Program, w: World, res: Optional[RunResult] = None,
               note: Any = None) -> dict:
        s = {
            "program": emit(prog).split('redun_namespace = "vp"')[-1].strip(),
            "main_args": repr(prog.main_args),
            "limits": prog.limits,
            "policy": w.policy,
            "schedule_events": [e[2:] for e in w.log[:60]],
        }
        if res is not None and res.outcome is not None:
            s["outcome"] = repr(res.outcome)[:300]
        if note is not None:
            s["note"] = note
        return s
