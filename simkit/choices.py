"""
The single source of nondeterminism for every simulated run.

A run is a pure function of (code under test, choice list).  In *generate* mode
the values are drawn from random.Random(seed) and recorded; in *replay* mode
they are read back (clamped with `% n`; once the list is exhausted every choice
is 0, which every caller arranges to be the "boring" alternative: FIFO
delivery, no fault, no pre-emption, smallest value).

Logging never draws.
"""

from __future__ import annotations

import hashlib
import random
from typing import Any, Callable, Optional, Sequence


def derive_seed(*parts: Any) -> int:
    h = hashlib.sha256("/".join(str(p) for p in parts).encode()).digest()
    return int.from_bytes(h[:8], "big")


class Choices:
    def __init__(self, seed: Optional[int] = None, replay: Optional[Sequence[int]] = None):
        assert (seed is None) != (replay is None)
        self.seed = seed
        self.replaying = replay is not None
        self._replay = list(replay) if replay is not None else None
        self._pos = 0
        self._rng = random.Random(seed) if seed is not None else None
        # Recorded trace: list of values; labels kept separately (for humans).
        self.values: list[int] = []
        self.labels: list[str] = []
        self.overrun = 0  # number of choices taken after the replay list ran out

    # -- core -------------------------------------------------------------
    def choice(self, n: int, label: str = "") -> int:
        """Return an int in [0, n)."""
        assert n >= 1, (n, label)
        if n == 1:
            # No information; not recorded (keeps traces short and stable).
            return 0
        if self._replay is not None:
            if self._pos < len(self._replay):
                v = self._replay[self._pos] % n
            else:
                v = 0
                self.overrun += 1
            self._pos += 1
        else:
            v = self._rng.randrange(n)
        self.values.append(v)
        self.labels.append(label)
        return v

    # -- helpers (all built on choice) ------------------------------------
    def coin(self, p: float, label: str = "") -> bool:
        """True with probability ~p. Value 0 == False (the boring outcome)."""
        if p <= 0:
            return False
        if p >= 1:
            return True
        # Resolution 1/1000. v==0..(1000-k-1) False ; map so that 0 is False.
        k = max(1, int(round(p * 1000)))
        v = self.choice(1000, label)
        return v >= 1000 - k

    def pick(self, seq: Sequence[Any], label: str = "") -> Any:
        return seq[self.choice(len(seq), label)]

    def int_between(self, lo: int, hi: int, label: str = "") -> int:
        """Inclusive bounds; 0-choice == lo."""
        return lo + self.choice(hi - lo + 1, label)

    def weighted(self, weights: Sequence[int], label: str = "") -> int:
        """Index drawn proportionally to integer weights; index 0 is 'boring'."""
        total = sum(weights)
        v = self.choice(total, label)
        acc = 0
        for i, w in enumerate(weights):
            acc += w
            if v < acc:
                return i
        return len(weights) - 1

    def shuffle(self, seq: list, label: str = "") -> list:
        out = list(seq)
        for i in range(len(out) - 1, 0, -1):
            j = i - self.choice(i + 1, label)  # 0 => keep position
            out[i], out[j] = out[j], out[i]
        return out

    def sample_subset(self, seq: Sequence[Any], p: float, label: str = "") -> list:
        return [x for x in seq if self.coin(p, label)]

    def fork(self, label: str) -> "Choices":
        """
        A sub-stream whose values are all derived from ONE recorded choice.
        Used for bulk data (e.g. program generation) that shrinking should treat as a
        unit: the sub-stream's seed is a single recorded integer.
        """
        s = self.choice(1 << 30, "fork:" + label)
        return Choices(seed=derive_seed("fork", label, s))


# ---------------------------------------------------------------------------
# Shrinking of a recorded choice list.
# ---------------------------------------------------------------------------


def shrink(
    values: list[int],
    still_fails: Callable[[list[int]], bool],
    max_tests: int = 400,
    deadline: Optional[Callable[[], bool]] = None,
) -> list[int]:
    """
    Conjecture-style shrinking: delete blocks, zero blocks, lower single values.
    `still_fails(candidate)` must re-run the simulation in replay mode and return True
    iff the *same* violation (property, oracle id, signature) is still observed.
    """
    tests = 0
    best = list(values)

    def attempt(cand: list[int]) -> bool:
        nonlocal tests, best
        if tests >= max_tests or (deadline and deadline()):
            return False
        if cand == best:
            return False
        tests += 1
        if still_fails(cand):
            best = cand
            return True
        return False

    # Trailing zeros are free.
    def strip(v: list[int]) -> list[int]:
        v = list(v)
        while v and v[-1] == 0:
            v.pop()
        return v

    if attempt(strip(best)):
        pass

    improved = True
    while improved and tests < max_tests and not (deadline and deadline()):
        improved = False
        # 1. delete blocks
        size = max(1, len(best) // 2)
        while size >= 1:
            i = 0
            while i + size <= len(best):
                cand = best[:i] + best[i + size :]
                if attempt(strip(cand)):
                    improved = True
                else:
                    i += size
                if tests >= max_tests:
                    break
            size //= 2
        # 2. zero blocks
        size = max(1, len(best) // 2)
        while size >= 1:
            i = 0
            while i + size <= len(best):
                if any(best[i : i + size]):
                    cand = best[:i] + [0] * size + best[i + size :]
                    if attempt(strip(cand)):
                        improved = True
                i += size
                if tests >= max_tests:
                    break
            size //= 2
        # 3. lower individual values
        for i in range(len(best)):
            if i >= len(best):
                break
            v = best[i]
            if v == 0:
                continue
            for nv in (0, v // 2, v - 1):
                if nv < v and i < len(best):
                    cand = best[:i] + [nv] + best[i + 1 :]
                    if attempt(strip(cand)):
                        improved = True
                        break
            if tests >= max_tests:
                break
    return best
