"""
One "interpreter node" of the C16 check: a fresh Python process (own PYTHONHASHSEED) that
rebuilds values from JSON specs, inserting set / dict elements in its own order, and prints
the redun value hash of each.  Usage: python -m simkit.hashnode <order_seed>  (specs on stdin)
"""

import json
import random
import sys


def build(spec, rng):
    t, v = spec["t"], spec.get("v")
    if t in ("int", "str", "none", "bool", "float"):
        return v
    if t == "bytes":
        return bytes(v)
    if t == "list":
        return [build(x, rng) for x in v]
    if t == "tuple":
        return tuple(build(x, rng) for x in v)
    if t in ("set", "frozenset"):
        items = [build(x, rng) for x in v]
        rng.shuffle(items)
        s = set()
        for x in items:  # node-specific insertion order
            s.add(x)
        return s if t == "set" else frozenset(items)
    if t == "dict":
        pairs = [(build(k, rng), build(x, rng)) for k, x in v]
        if spec.get("shuffle"):
            rng.shuffle(pairs)
        return dict(pairs)
    if t == "dc":
        from simkit.proglib import D

        return D(build(v[0], rng), build(v[1], rng))
    if t == "nt":
        from simkit.proglib import P

        return P(build(v[0], rng), build(v[1], rng))
    raise ValueError(t)


def arg_hashes(reg, v):
    """The hashes a call is keyed with when the value is passed as an argument: by position,
    in the surplus (variadic) positions, and by keyword."""
    import hashlib

    from redun.task import hash_args_eval

    parts = []
    for t, a, k in ((_fixed, (1, v), {}), (_var, (1, v), {}), (_var, (1, 2, v, v), {}),
                    (_fixed, (1,), {"b": v})):
        parts.extend(hash_args_eval(reg, t, a, k))
    return hashlib.sha1("".join(parts).encode()).hexdigest()


def main():
    rng = random.Random(int(sys.argv[1]))
    specs = json.load(sys.stdin)
    from redun import task
    from redun.value import get_type_registry

    global _fixed, _var

    @task(namespace="hashnode")
    def _fixed(a, b=None):
        return a

    @task(namespace="hashnode")
    def _var(a, *rest):
        return a

    reg = get_type_registry()
    # every node hashes the batch in its own order: the hash of a value must not depend on
    # what the process hashed before
    order = list(range(len(specs)))
    random.Random(int(sys.argv[1]) + 1).shuffle(order)
    out = [None] * len(specs)
    for i in order:
        spec = specs[i]
        try:
            v = build(spec, rng)
            # the hash the scheduler keys arguments with, and the hash the backend records the
            # same argument / result under (record_value: get_hash(data=serialize()))
            iface = reg.get_value(v)
            out[i] = (reg.get_hash(v) + "|" + iface.get_hash(data=iface.serialize())
                      + "|" + arg_hashes(reg, v))
        except Exception as e:  # noqa
            out[i] = "ERR:" + type(e).__name__
    json.dump(out, sys.stdout)


if __name__ == "__main__":
    main()
