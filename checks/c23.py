"""C23 Record transfer between repositories preserves the call graph (engine B: two repositories)."""

from __future__ import annotations

from checks.c03 import sync_records
from simkit import enginea, histsim, refinterp, schedsim
from simkit.acheck import EngineACheck
from simkit.choices import Choices
from simkit.dbview import DbView
from simkit.progs import ALL_FEATURES, Gen, GenConfig
from simkit.runner import RunOutcome

# table -> columns that must survive a transfer (None = all columns)
DUMP = {
    "execution": ["id", "args", "job_id"],
    "job": None,
    "call_node": None,
    "argument": None,
    "argument_result": None,
    "call_edge": ["parent_id", "child_id", "call_order"],
    "value": ["value_hash", "type", "format", "value"],
    "file": None,
    "task": None,
    "subvalue": None,
    "tag": None,
    "tag_edit": None,
}


def dump(db: str) -> dict:
    view = DbView(db)
    try:
        out = {}
        for t, cols in DUMP.items():
            rows = []
            for r in view.rows(t):
                keys = cols or sorted(r)
                rows.append(tuple((k, r[k]) for k in keys))
            out[t] = set(rows)
        return out
    finally:
        view.close()


def reachable(db: str, roots: list[str]) -> dict:
    """Independent walk: which rows hang off the given executions."""
    view = DbView(db)
    try:
        jobs = view.rows("job")
        by_parent: dict = {}
        for j in jobs:
            by_parent.setdefault(j["parent_id"], []).append(j)
        job_by_id = {j["id"]: j for j in jobs}
        execs = {e["id"]: e for e in view.rows("execution")}
        nodes = {n["call_hash"]: n for n in view.rows("call_node")}
        args_by_node: dict = {}
        for a in view.rows("argument"):
            args_by_node.setdefault(a["call_hash"], []).append(a)
        ups: dict = {}
        for r in view.rows("argument_result"):
            ups.setdefault(r["arg_hash"], []).append(r["result_call_hash"])
        kids: dict = {}
        for e in view.rows("call_edge"):
            kids.setdefault(e["parent_id"], []).append(e["child_id"])
        subs: dict = {}
        for s in view.rows("subvalue"):
            subs.setdefault(s["parent_value_hash"], []).append(s["value_hash"])
        R = {"execution": set(), "job": set(), "call_node": set(), "value": set(), "task": set()}
        stack = []
        for ex in roots:
            if ex in execs:
                R["execution"].add(ex)
                stack.append(("job", execs[ex]["job_id"]))
        while stack:
            kind, ident = stack.pop()
            if ident is None or ident in R[kind]:
                continue
            if kind == "job":
                j = job_by_id.get(ident)
                if j is None:
                    continue
                R["job"].add(ident)
                # the job's own task, also when the job never got a call node (still running
                # when its execution failed or was killed)
                if j["task_hash"]:
                    R["task"].add(j["task_hash"])
                    if not j["call_hash"]:
                        R.setdefault("_unfinished", set()).add(ident)
                for c in by_parent.get(ident, []):
                    stack.append(("job", c["id"]))
                if j["call_hash"]:
                    stack.append(("call_node", j["call_hash"]))
            elif kind == "call_node":
                n = nodes.get(ident)
                if n is None:
                    continue
                R["call_node"].add(ident)
                R["task"].add(n["task_hash"])
                stack.append(("value", n["value_hash"]))
                for a in args_by_node.get(ident, []):
                    stack.append(("value", a["value_hash"]))
                    for u in ups.get(a["arg_hash"], []):
                        stack.append(("call_node", u))
                for c in kids.get(ident, []):
                    stack.append(("call_node", c))
            elif kind == "value":
                R["value"].add(ident)
                for s in subs.get(ident, []):
                    stack.append(("value", s))
        return R
    finally:
        view.close()


class C23(EngineACheck):
    PROPERTY = "C23"
    RULE = (
        "repository A receives 1-3 simulated executions of generated programs (failures, "
        "duplicates, files nested in values are not used) and a generated history of tag "
        "add / update / delete operations on its executions and jobs; a subset of the executions "
        "is pushed to an empty repository B, pushed again, then the rest is pushed, with further "
        "tag edits in A between two transfers in most cases (so that B already holds the tags the "
        "next transfer supersedes or deletes); after each "
        "step the rows of B are compared with those of A (everything an independent walk finds "
        "reachable from the pushed executions must be present and equal, nothing may exist in B "
        "that A lacks, a repeated push must report 0 new records and change nothing, and after "
        "the last push the dump tables must be equal); finally an edited program runs on B and "
        "must equal its run on an empty backend, and that execution is transferred back into A "
        "(once and again); a case is (programs, tag history, root "
        "selection); non-trivial = at least two executions and one superseded tag"
    )
    ASSUMPTIONS = EngineACheck.ASSUMPTIONS + [
        "interrupted transfers are not injected (the statement promises nothing about them)",
        "Evaluation, CallSubtreeTask, Handle rows, Execution.updated_time and redun_version are "
        "outside the compared dump: the statement does not list them and the serializers drop them",
    ]
    EXPECTED_PROBES = ["partial_pushes", "repeated_pushes", "superseded_tags",
                       "edited_runs_on_destination", "tag_edits_between_transfers",
                       "reverse_transfers"]
    QUICK_SECONDS = 35.0

    def run_one(self, ch: Choices) -> RunOutcome:
        from redun.backends.base import TagEntity

        out = RunOutcome()
        feats = set(ALL_FEATURES) - {"forkjoin", "async"}
        cfg = GenConfig(features=feats, p_error=0.3, modes=("thread", "thread", "process"),
                        p_dup=0.3, max_tasks=6,
                        task_options=[{"check_valid": "shallow"}, {"tags": [("kt", 9)]}],
                        p_task_option=0.25)
        prog = Gen(ch, cfg).generate()
        db_a = schedsim.fresh_db("repoA.db")
        db_b = schedsim.fresh_db("repoB.db")
        nexec = 1 + ch.choice(3, "nexec")
        w = res = None
        with enginea.ProgramSession(prog) as sess:
            for ex in range(nexec):
                if ex == 1 and ch.coin(0.5, "edit-between"):
                    cands = histsim.editable_tasks(prog)
                    if cands:
                        histsim.apply_variant(cands[ch.choice(len(cands), "edit")], 1)
                        sess.reload(prog)
                res = enginea.simulate(ch, prog, db_path=db_a, session=sess)
                w = res.world
                self.fill(out, w, prog, extra_key=str(ex))
            # ---- tag history on A ----------------------------------------------------
            view = DbView(db_a)
            exec_ids = [e["id"] for e in view.rows("execution")]
            job_ids = [j["id"] for j in view.rows("job")]
            view.close()
            ents = [(TagEntity.Execution, e) for e in exec_ids] + \
                   [(TagEntity.Job, j) for j in job_ids[:3]]

            def tag_ops(n: int) -> int:
                backend = schedsim.open_backend(db_a)
                try:
                    for _ in range(n):
                        et, eid = ents[ch.choice(len(ents), "tag-entity")]
                        key = ["ta", "tb"][ch.choice(2, "tag-key")]
                        val = [1, "x", [1], None][ch.choice(4, "tag-val")]
                        k = ch.choice(3, "tag-op")
                        if k == 0:
                            backend.record_tags(et, eid, [(key, val)], new=True)
                        elif k == 1:
                            backend.record_tags(et, eid, [(key, val)], update=True)
                            out.probe("superseded_tags")
                        else:
                            backend.delete_tags(eid, [(key, val)], [])
                finally:
                    schedsim.close_backend(backend)
                return n

            tag_ops(ch.choice(6, "ntagops"))
            out.nontrivial = len(exec_ids) >= 2 and bool(out.probes.get("superseded_tags"))

            # ---- transfers --------------------------------------------------------------
            first = [e for e in exec_ids if ch.coin(0.6, "root?")] or exec_ids[:1]
            rest = [e for e in exec_ids if e not in first]
            steps = [("push-subset", first), ("push-subset-again", first)]
            if rest:
                out.probe("partial_pushes")
                steps += [("push-rest", exec_ids), ("push-all-again", exec_ids)]
            # tag edits in the source *between* transfers: the destination already holds the
            # tags that the next transfer supersedes or deletes
            if ch.coin(0.6, "tag-edits-between-transfers"):
                at = 1 + ch.choice(len(steps), "tag-edits-at")
                steps.insert(at, ("tag-edits", None))
                steps += [("push-all-after-tag-edits", exec_ids), ("push-all-again", exec_ids)]
            a = dump(db_a)
            dirty = False
            for name, roots in steps:
                if name == "tag-edits":
                    if tag_ops(1 + ch.choice(4, "ntagops-between")):
                        dirty = True
                        out.probe("tag_edits_between_transfers")
                        a = dump(db_a)
                    continue
                before = dump(db_b)
                n = self.sync(db_a, db_b, roots)
                b = dump(db_b)
                if "again" in name and not dirty:
                    out.probe("repeated_pushes")
                    if n != 0:
                        out.violate("C23.repeat_adds_nothing", "reported-new-records",
                                    {"step": name, "reported": n})
                    if b != before:
                        t = next(t for t in b if b[t] != before[t])
                        out.violate("C23.repeat_adds_nothing", f"changed:{t}", {"step": name})
                if roots == exec_ids:
                    dirty = False  # everything was transferred: the next push is a pure repeat
                # nothing in B that A lacks
                for t in b:
                    extra = b[t] - a[t]
                    if extra:
                        out.violate("C23.destination_subset_of_source", f"{t}",
                                    {"step": name, "extra": [x[:300] for x in sorted(map(repr, extra))[:2]]})
                        break
                # everything reachable from the pushed roots is present and equal
                R = reachable(db_a, roots)
                pk = {"execution": "id", "job": "id", "call_node": "call_hash",
                      "value": "value_hash", "task": "hash"}
                if R.pop("_unfinished", None):
                    out.probe("unfinished_jobs_transferred")
                for t, ids in R.items():
                    have = {dict(r)[pk[t]] for r in b[t]}
                    missing = ids - have - ({None} if t == "task" else set())
                    if t == "task":
                        # a task row exists only if the task value was recorded in A
                        missing = {m for m in missing if any(dict(r)["hash"] == m for r in a["task"])}
                    if missing:
                        out.violate("C23.reachable_records_transferred", f"missing:{t}",
                                    {"step": name, "missing": sorted(missing)[:3]})
                        break
                if out.violations:
                    break
            if not out.violations:
                # After everything was pushed: every row attached to a reachable record is equal
                # on both sides (values that only the Evaluation cache refers to are not part of
                # the call graph and stay behind).
                b = dump(db_b)
                R = reachable(db_a, exec_ids)
                R.pop("_unfinished", None)

                def attached(d):
                    sel = {}
                    rows = {t: [dict(r) for r in d[t]] for t in d}
                    sel["execution"] = {repr(sorted(r.items())) for r in rows["execution"] if r["id"] in R["execution"]}
                    sel["job"] = {repr(sorted(r.items())) for r in rows["job"] if r["id"] in R["job"]}
                    sel["call_node"] = {repr(sorted(r.items())) for r in rows["call_node"] if r["call_hash"] in R["call_node"]}
                    sel["value"] = {repr(sorted(r.items()))[:300] for r in rows["value"] if r["value_hash"] in R["value"]}
                    sel["argument"] = {repr(sorted(r.items())) for r in rows["argument"] if r["call_hash"] in R["call_node"]}
                    arg_ids = {r["arg_hash"] for r in rows["argument"] if r["call_hash"] in R["call_node"]}
                    sel["argument_result"] = {repr(sorted(r.items())) for r in rows["argument_result"] if r["arg_hash"] in arg_ids}
                    sel["call_edge"] = {repr(sorted(r.items())) for r in rows["call_edge"] if r["parent_id"] in R["call_node"]}
                    sel["file"] = {repr(sorted(r.items())) for r in rows["file"] if r["value_hash"] in R["value"]}
                    sel["subvalue"] = {repr(sorted(r.items())) for r in rows["subvalue"] if r["parent_value_hash"] in R["value"]}
                    ents = R["execution"] | R["job"] | R["call_node"] | R["value"] | R["task"]
                    tags = [r for r in rows["tag"] if r["entity_id"] in ents]
                    sel["tag"] = {repr(sorted(r.items())) for r in tags}
                    return sel

                sa_, sb_ = attached(a), attached(b)
                for t in sa_:
                    if sa_[t] != sb_[t]:
                        out.violate("C23.dump_equal_after_full_push", t,
                                    {"table": t, "only_in_source": [x[:300] for x in sorted(sa_[t] - sb_[t])[:2]],
                                     "only_in_destination": [x[:300] for x in sorted(sb_[t] - sa_[t])[:2]]})
                        break
            # ---- cache containment: edited program on the destination --------------------
            if not out.violations:
                cands = histsim.editable_tasks(prog)
                if cands:
                    t = cands[ch.choice(len(cands), "edit-dst")]
                    histsim.apply_variant(t, 2 + ch.choice(2, "variant"))
                    sess.reload(prog)
                    fresh = enginea.simulate(ch, prog, db_path=schedsim.fresh_db("fresh.db"), session=sess)
                    onb = enginea.simulate(ch, prog, db_path=db_b, session=sess)
                    out.probe("edited_runs_on_destination")
                    if fresh.outcome[0] in ("v", "e") and onb.outcome[0] in ("v", "e"):
                        kf, kb = refinterp.okey(fresh.outcome), refinterp.okey(onb.outcome)
                        same = kf == kb if kf[0] == "v" else (kb[0] == "e" and kf[1][1] == kb[1][1])
                        if not same:
                            out.violate("C23.cache_containment", "edited-run-on-destination-differs",
                                        {"edited": t.name, "fresh": repr(kf)[:200], "destination": repr(kb)[:200]})
            # ---- the other direction: what ran on B is pulled back into A --------------------
            if not out.violations:
                b = dump(db_b)
                new_execs = sorted({dict(r)["id"] for r in b["execution"]} - set(exec_ids))
                if new_execs:
                    out.probe("reverse_transfers")
                    n1 = self.sync(db_b, db_a, new_execs)
                    a2 = dump(db_a)
                    R = reachable(db_b, new_execs)
                    R.pop("_unfinished", None)
                    pk = {"execution": "id", "job": "id", "call_node": "call_hash",
                          "value": "value_hash", "task": "hash"}
                    for t, ids in R.items():
                        have = {dict(r)[pk[t]] for r in a2[t]}
                        missing = ids - have - ({None} if t == "task" else set())
                        if t == "task":
                            missing = {m for m in missing if any(dict(r)["hash"] == m for r in b["task"])}
                        if missing:
                            out.violate("C23.reachable_records_transferred", f"reverse:missing:{t}",
                                        {"missing": sorted(missing)[:3]})
                            break
                    n2 = self.sync(db_b, db_a, new_execs)
                    if not out.violations and (n2 != 0 or dump(db_a) != a2):
                        out.violate("C23.repeat_adds_nothing", "reverse:repeat-changed-something",
                                    {"reported": n2, "first": n1})
        if w is not None:
            out.sample = self.sample(prog, w, res, note={"executions": len(exec_ids)})
        return out

    @staticmethod
    def sync(src: str, dst: str, roots: list[str]) -> int:
        from redun.cli import RedunClient

        a = schedsim.open_backend(src)
        b = schedsim.open_backend(dst)
        try:
            return RedunClient._sync_records(None, a, b, list(roots))
        finally:
            schedsim.close_backend(a)
            schedsim.close_backend(b)


CHECK = C23
