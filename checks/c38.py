"""C38 Sub-scheduler runs are equivalent to direct evaluation (engine A)."""

from __future__ import annotations

from simkit import enginea, proglib, refinterp, schedsim
from simkit.acheck import EngineACheck
from simkit.choices import Choices
from simkit.dbview import DbView
from simkit.progs import ALL_FEATURES, Gen, GenConfig
from simkit.runner import RunOutcome


SUB_TASKS = '''
from simkit import proglib as _pl

@task()
def inc(x):
    hit('inc', x)
    return mix('inc{salt_inc}', x, _pl.epoch())


@task()
def add(a, b):
    hit('add', a, b)
    return mix('add', a, b)


@task()
def boom(x):
    hit('boom', x)
{boom_body}


@task()
def rec(e):
    return mix('rec', errcode(e))


@task()
def wf(x):
    return add(inc(x), inc(inc(x)))


@task()
def wf_fail(x):
    return add(inc(x), boom(x))


@task()
def wf_caught(x):
    return catch(wf_fail(x), ValueError, rec)

'''


def gen_subrun_family(ch: Choices):
    """k sibling sub-workflows, each either wrapped in subrun(...) with generated options
    (executor, new_execution, cache settings, limits on a scarce resource) or evaluated directly;
    returns (source builder, items) -- the builder takes (direct: bool, edit state)."""
    from simkit.progs import HEADER

    k = 2 + ch.choice(3, "nitems")
    items = []
    for i in range(k):
        wf = ["wf", "wf", "wf_caught", "wf_fail"][ch.choice(4, "wf")]
        opts = {"executor": ["default", "process"][ch.choice(2, "executor")],
                "new_execution": bool(ch.choice(2, "new-exec"))}
        c = ch.choice(4, "cache")
        if c == 1:
            opts["cache_scope"] = "NONE"
        elif c == 2:
            opts["cache_scope"] = "CSE"
        elif c == 3:
            opts["cache"] = False
        if ch.coin(0.5, "limits"):
            opts["limits"] = ["sr"]
        items.append((wf, i, opts, bool(ch.choice(4, "wrapped") != 0)))

    def source(direct: bool, salt_inc: int, boom_raises: bool) -> str:
        body = ("    raise ValueError('boom-%s' % x)" if boom_raises
                else "    return mix('boom-fixed', x)")
        parts = []
        for wf, i, opts, wrapped in items:
            call = f"{wf}({i})"
            if wrapped and not direct:
                o = ", ".join(f"{a}={v!r}" for a, v in opts.items())
                call = f"subrun({call}, {o})"
            parts.append(call)
        expr = "[" + ", ".join(parts) + "]"
        if any(wf == "wf_fail" for wf, *_ in items):
            expr = f"catch_all({expr})"
        return (HEADER.format(ns="vp")
                + SUB_TASKS.format(salt_inc=salt_inc or "", boom_body=body)
                + f"@task()\ndef t0():\n    return {expr}\n")

    return source, items


class C38(EngineACheck):
    PROPERTY = "C38"
    RULE = (
        "generated programs in which sub-expressions are wrapped in subrun(expr, executor="
        "'default'|'process', new_execution in {False, True}, cache_scope varied); parent and "
        "sub-scheduler share one SQLite file; every scheduler (the sub-schedulers are built by the "
        "real _subrun_root_task) runs under the simulator; executed twice on one backend; a case is "
        "(program, schedule signatures); non-trivial = a sub-scheduler ran at least two jobs"
    )
    ASSUMPTIONS = EngineACheck.ASSUMPTIONS + [
        "a sub-scheduler runs to completion inside the hand-off of its _subrun_root_task job, so "
        "interleavings *between* parent and child event loops are not explored; each loop's own "
        "schedule is",
    ]
    EXPECTED_PROBES = ["subruns_extending_execution", "subruns_new_execution", "subrun_in_process_mode",
                       "second_execution_reenters_subrun", "subrun_errors"]
    QUICK_SECONDS = 35.0

    def run_family(self, ch: Choices) -> RunOutcome:
        from simkit.progs import RawProgram

        out = RunOutcome()
        out.probe("family_programs")
        source, items = gen_subrun_family(ch)
        salt, raises = 0, True
        proglib.EPOCH[0] = 0
        db = schedsim.fresh_db("subrun-fam.db")
        nexec = 2 + ch.choice(2, "nexec")
        history = []
        w = res = None
        prog = RawProgram(source(False, salt, raises), limits={"sr": 1})
        with enginea.ProgramSession(prog) as sess:
            for ex in range(nexec):
                desc = "none"
                if ex > 0:
                    e = ch.choice(3, "edit")
                    if e == 1:
                        salt = (salt + 1) % 3
                        desc = f"inc body -> {salt}"
                    elif e == 2 and not any(wf == "wf_caught" for wf, *_ in items):
                        # (not with a catch in the program: editing a task beneath a catch runs
                        # into the known C02 finding, with or without subrun)
                        raises = not raises
                        desc = f"boom raises -> {raises}"
                # some later executions run with caching switched off (redun run --no-cache):
                # then nothing at all may be replayed across executions
                last = ex == nexec - 1
                nocache = ex > 0 and ch.coin(0.5 if last else 0.3, "run-without-cache")
                rk = {"cache": False} if nocache else None
                if nocache:
                    out.probe("executions_without_cache")
                if nocache and last and ch.coin(0.7, "external-change"):
                    # the world outside changed (the tasks read it): a run without caching
                    # must not show anything an earlier execution computed
                    proglib.EPOCH[0] += 1
                    desc += " + external change"
                    out.probe("external_change_before_no_cache_run")
                # direct evaluation of the same program version on an empty backend
                direct = RawProgram(source(True, salt, raises), limits={"sr": 1})
                sess.reload(direct)
                dres = enginea.simulate(ch, direct, db_path=schedsim.fresh_db("direct.db"),
                                        session=sess, run_kwargs=rk)
                prog = RawProgram(source(False, salt, raises), limits={"sr": 1})
                sess.reload(prog)
                proglib.reset_hits()
                res = enginea.simulate(ch, prog, db_path=db, session=sess, backend_in_config=True,
                                       run_kwargs=rk)
                w, rec = res.world, res.rec
                self.fill(out, w, prog, extra_key=str(ex))
                history.append({"execution": ex, "edit": desc, "cache": not nocache})
                if res.outcome[0] == "abort":
                    out.violate("C38.terminates", res.outcome[1], {"history": history})
                    break
                if dres.outcome[0] == "abort":
                    break
                got, want = refinterp.okey(res.outcome), refinterp.okey(dres.outcome)
                if got != want:
                    where = "first-execution" if ex == 0 else "later-execution"
                    sig = f"family/{where}:" + ("value" if got[0] == "v" else "error:" + got[1][1])
                    # Known finding: the call node of a subrun records none of the tasks that ran
                    # inside it, so after an edit of an inner task the (default, shallow) ultimate
                    # reduction of the subrun still replays the old result.
                    # (the known finding is about replay under default caching; with caching
                    # switched off there is nothing that may be replayed)
                    edited = any(h["edit"] != "none" for h in history) and not nocache
                    if nocache:
                        sig = sig.replace("family/", "family/no-cache-run/")
                    if edited and got[0] == "v" and want[0] == "v" and len(got[1]) == len(want[1]):
                        diff = [i - 1 for i in range(1, len(got[1])) if got[1][i] != want[1][i]]

                        def replayable(i):  # noqa: E306
                            _wf, _i, o, wrapped = items[i]
                            return (wrapped and o.get("cache", True) is not False
                                    and o.get("cache_scope") not in ("NONE", "CSE"))

                        if diff and all(replayable(i) for i in diff):
                            sig = "family/subrun-replayed-after-inner-task-edit"
                    elif edited and got[0] == "e" and want[0] == "e" and "boom-" in repr(got) \
                            and "boom-" in repr(want):
                        # both fail, with the error of different items: an item that fails in
                        # the direct run was replayed (as a value) by its subrun
                        if any(wf == "wf_fail" and wrapped and o.get("cache", True) is not False
                               and o.get("cache_scope") not in ("NONE", "CSE")
                               for wf, _i, o, wrapped in items):
                            sig = "family/subrun-replayed-after-inner-task-edit"
                    elif edited and got[0] == "e" and want[0] == "v" and "boom-" in repr(got):
                        # the replayed result of the subrun is the error of the earlier version
                        # (a sub-workflow failure comes back as an ordinary result of the subrun's
                        # root task and is cached like one)
                        stale = [i for i, (wf, _i, o, wrapped) in enumerate(items)
                                 if wf == "wf_fail" and wrapped and o.get("cache", True) is not False
                                 and o.get("cache_scope") not in ("NONE", "CSE")
                                 and f"boom-{_i}" in repr(got)]
                        if stale:
                            sig = "family/subrun-replayed-after-inner-task-edit"
                    out.violate("C38.equals_direct_evaluation", sig,
                                {"history": history, "t0": prog.source.split("def t0():")[-1].strip(),
                                 "subrun": repr(got)[:300], "direct": repr(want)[:300]})
                    break
                root_jobs = [rec.jobs[j] for j in rec.order
                             if rec.jobs[j].task == "redun.subrun_root_task"]
                if any(r.exec_count > 1 for r in root_jobs):
                    out.probe("subrun_waited_for_limits")
                    out.nontrivial = True
                if ex > 0 and any(r.handoffs for r in root_jobs):
                    out.probe("second_execution_reenters_subrun")
                for r in root_jobs:
                    if r.was_cached and r.handoffs == 0 and r.pre_call_hash is None \
                            and r.id not in rec.collapsed:
                        out.violate("C38.no_single_reduction_for_subrun", "cached-without-call-hash",
                                    {"execution": ex})
                self.check_job_tree(out, db, rec, ex)
                if out.violations:
                    break
        if w is not None:
            out.nontrivial = out.nontrivial or w.max_inflight >= 2
            out.sample = {"t0": prog.source.split("def t0():")[-1].strip(), "history": history,
                          "schedule_events": [e[2:] for e in w.log[:40]]}
        return out

    def run_one(self, ch: Choices) -> RunOutcome:
        from simkit.progs import walk

        if ch.choice(2, "program-family") == 1:
            return self.run_family(ch)
        out = RunOutcome()
        feats = (set(ALL_FEATURES) | {"subrun"}) - {"forkjoin", "async", "tags"}
        cfg = GenConfig(features=feats, p_error=0.25, modes=("thread", "thread", "process"),
                        max_tasks=6, max_depth=2, p_dup=0.1)
        prog = Gen(ch, cfg).generate()
        nodes = [n for t in prog.tasks for n in walk(t.body)]
        subs = [n for n in nodes if n[0] == "subrun"]
        out.key = out.digest = "no-subrun/" + prog.key()
        if not subs:
            return out
        try:
            ref = refinterp.Ref(prog).run()
        except (refinterp.Loose, RecursionError):
            return out
        db = schedsim.fresh_db("subrun.db")
        w = res = None
        with enginea.ProgramSession(prog) as sess:
            for ex in range(2):
                proglib.reset_hits()
                res = enginea.simulate(ch, prog, db_path=db, session=sess, backend_in_config=True)
                w, rec = res.world, res.rec
                self.fill(out, w, prog, extra_key=str(ex))
                if res.outcome[0] == "abort":
                    out.violate("C38.terminates", res.outcome[1], {"execution": ex})
                    break
                key = refinterp.okey(res.outcome)
                if key not in ref.keys():
                    out.violate("C38.equals_direct_evaluation",
                                f"execution-{ex}:" + ("value" if key[0] == "v" else "error:" + key[1][1]),
                                {"real": repr(key)[:300], "reference": sorted(map(repr, ref.keys()))[:3]})
                    break
                root_jobs = [rec.jobs[j] for j in rec.order if rec.jobs[j].task == "redun.subrun_root_task"]
                ran = [r for r in root_jobs if r.handoffs]
                if ex == 1 and ran:
                    out.probe("second_execution_reenters_subrun")
                for r in ran:
                    if r.options and r.options.get("executor") == "process":
                        out.probe("subrun_in_process_mode")
                if any(r.outcome and r.outcome[0] == "e" for r in root_jobs):
                    out.probe("subrun_errors")
                # never a single-reduction (Evaluation) hit for the subrun task itself
                for r in root_jobs:
                    if r.was_cached and r.handoffs == 0 and r.pre_call_hash is None and r.id not in rec.collapsed:
                        out.violate("C38.no_single_reduction_for_subrun", "cached-without-call-hash",
                                    {"execution": ex})
                self.check_job_tree(out, db, rec, ex)
                if out.violations:
                    break
        sub_jobs = 0
        if res is not None:
            sub_jobs = sum(1 for j in res.rec.order if res.rec.jobs[j].task.startswith("vp.")) 
        out.nontrivial = sub_jobs >= 3
        if w is not None:
            out.sample = self.sample(prog, w, res)
        return out

    def check_job_tree(self, out, db, rec, ex) -> None:
        view = DbView(db)
        try:
            jobs = {r["id"]: r for r in view.rows("job")}
            for jid in rec.order:
                r = rec.jobs[jid]
                if r.task != "redun.subrun_root_task" or not r.handoffs or r.outcome is None:
                    continue
                new_exec = None
                if r.bound_args is not None:
                    d = dict(r.bound_args)
                    new_exec = d.get("new_execution")
                # children recorded by the sub-scheduler under this job
                kids = [j for j in jobs.values() if j["parent_id"] == jid]
                is_new = new_exec is not None and "True" in repr(new_exec)
                if is_new:
                    out.probe("subruns_new_execution")
                    if kids:
                        out.violate("C38.job_tree", "new-execution-jobs-under-calling-job",
                                    {"kids": len(kids)})
                else:
                    out.probe("subruns_extending_execution")
                    row = jobs.get(jid)
                    if row is None:
                        continue
                    if r.outcome[0] == "v" and not kids:
                        out.violate("C38.job_tree", "no-sub-jobs-under-calling-job", {"job": jid[:8]})
                    for k in kids:
                        if k["execution_id"] != row["execution_id"]:
                            out.violate("C38.job_tree", "sub-job-in-other-execution", {"job": jid[:8]})
        finally:
            view.close()


CHECK = C38
