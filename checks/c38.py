"""C38 Sub-scheduler runs are equivalent to direct evaluation (engine A)."""

from __future__ import annotations

from simkit import enginea, proglib, refinterp, schedsim
from simkit.acheck import EngineACheck
from simkit.choices import Choices
from simkit.dbview import DbView
from simkit.progs import ALL_FEATURES, Gen, GenConfig
from simkit.runner import RunOutcome


class C38(EngineACheck):
    PROPERTY = "C38"
    RULE = (
        "generated programs in which sub-expressions are wrapped in subrun(expr, executor="
        "'default'|'process', new_execution in {False, True}, cache_scope varied); parent and "
        "sub-scheduler share one SQLite file; every scheduler (the sub-schedulers are built by the "
        "real _subrun_root_task) runs under the simulator; executed twice on one backend; a case is "
        "(program, schedule signatures); non-trivial = a sub-scheduler ran at least two jobs"
    )
    ASSUMPTIONS = EngineACheck.ASSUMPTIONS + [
        "a sub-scheduler runs to completion inside the hand-off of its _subrun_root_task job, so "
        "interleavings *between* parent and child event loops are not explored; each loop's own "
        "schedule is",
    ]
    EXPECTED_PROBES = ["subruns_extending_execution", "subruns_new_execution", "subrun_in_process_mode",
                       "second_execution_reenters_subrun", "subrun_errors"]
    QUICK_SECONDS = 35.0

    def run_one(self, ch: Choices) -> RunOutcome:
        from simkit.progs import walk

        out = RunOutcome()
        feats = (set(ALL_FEATURES) | {"subrun"}) - {"forkjoin", "async", "tags"}
        cfg = GenConfig(features=feats, p_error=0.25, modes=("thread", "thread", "process"),
                        max_tasks=6, max_depth=2, p_dup=0.1)
        prog = Gen(ch, cfg).generate()
        nodes = [n for t in prog.tasks for n in walk(t.body)]
        subs = [n for n in nodes if n[0] == "subrun"]
        out.key = out.digest = "no-subrun/" + prog.key()
        if not subs:
            return out
        try:
            ref = refinterp.Ref(prog).run()
        except (refinterp.Loose, RecursionError):
            return out
        db = schedsim.fresh_db("subrun.db")
        w = res = None
        with enginea.ProgramSession(prog) as sess:
            for ex in range(2):
                proglib.reset_hits()
                res = enginea.simulate(ch, prog, db_path=db, session=sess, backend_in_config=True)
                w, rec = res.world, res.rec
                self.fill(out, w, prog, extra_key=str(ex))
                if res.outcome[0] == "abort":
                    out.violate("C38.terminates", res.outcome[1], {"execution": ex})
                    break
                key = refinterp.okey(res.outcome)
                if key not in ref.keys():
                    out.violate("C38.equals_direct_evaluation",
                                f"execution-{ex}:" + ("value" if key[0] == "v" else "error:" + key[1][1]),
                                {"real": repr(key)[:300], "reference": sorted(map(repr, ref.keys()))[:3]})
                    break
                root_jobs = [rec.jobs[j] for j in rec.order if rec.jobs[j].task == "redun.subrun_root_task"]
                ran = [r for r in root_jobs if r.handoffs]
                if ex == 1 and ran:
                    out.probe("second_execution_reenters_subrun")
                for r in ran:
                    if r.options and r.options.get("executor") == "process":
                        out.probe("subrun_in_process_mode")
                if any(r.outcome and r.outcome[0] == "e" for r in root_jobs):
                    out.probe("subrun_errors")
                # never a single-reduction (Evaluation) hit for the subrun task itself
                for r in root_jobs:
                    if r.was_cached and r.handoffs == 0 and r.pre_call_hash is None and r.id not in rec.collapsed:
                        out.violate("C38.no_single_reduction_for_subrun", "cached-without-call-hash",
                                    {"execution": ex})
                self.check_job_tree(out, db, rec, ex)
                if out.violations:
                    break
        sub_jobs = 0
        if res is not None:
            sub_jobs = sum(1 for j in res.rec.order if res.rec.jobs[j].task.startswith("vp.")) 
        out.nontrivial = sub_jobs >= 3
        if w is not None:
            out.sample = self.sample(prog, w, res)
        return out

    def check_job_tree(self, out, db, rec, ex) -> None:
        view = DbView(db)
        try:
            jobs = {r["id"]: r for r in view.rows("job")}
            for jid in rec.order:
                r = rec.jobs[jid]
                if r.task != "redun.subrun_root_task" or not r.handoffs or r.outcome is None:
                    continue
                new_exec = None
                if r.bound_args is not None:
                    d = dict(r.bound_args)
                    new_exec = d.get("new_execution")
                # children recorded by the sub-scheduler under this job
                kids = [j for j in jobs.values() if j["parent_id"] == jid]
                is_new = new_exec is not None and "True" in repr(new_exec)
                if is_new:
                    out.probe("subruns_new_execution")
                    if kids:
                        out.violate("C38.job_tree", "new-execution-jobs-under-calling-job",
                                    {"kids": len(kids)})
                else:
                    out.probe("subruns_extending_execution")
                    row = jobs.get(jid)
                    if row is None:
                        continue
                    if r.outcome[0] == "v" and not kids:
                        out.violate("C38.job_tree", "no-sub-jobs-under-calling-job", {"job": jid[:8]})
                    for k in kids:
                        if k["execution_id"] != row["execution_id"]:
                            out.violate("C38.job_tree", "sub-job-in-other-execution", {"job": jid[:8]})
        finally:
            view.close()


CHECK = C38
