"""C05 Results are never shared between calls with different contexts (engines A/B)."""

from __future__ import annotations

from checks.c26 import gen_root_contexts
from simkit import enginea, refinterp, schedsim
from simkit.acheck import EngineACheck
from simkit.choices import Choices
from simkit.progs import ALL_FEATURES, Gen, GenConfig
from simkit.runner import RunOutcome


CTX_TASKS = '''
@task()
def rd_(x, k):
    hit('rd', x, k)
    return mix('rd', x, k)


@task()
def rd(x):
    return rd_(x, get_context('k', 0))


@task()
def rdd(x, c=get_context('k', 0)):
    return mix('rdd', x, c)


@task()
def lookup():
    return rd(7)


@task()
def viadef(x, off=lookup()):
    return mix('viadef', x, off)


@task(check_valid='shallow')
def sh(x):
    return rd(x)


@task(check_valid='shallow')
def shdef(x, off=lookup()):
    return mix('shdef', x, off)


@task()
def wrap(x):
    return rd(x)


@task()
def wrapo(x):
    return rd.update_context({'k': 9})(x)


@task()
def delay(x):
    return x

'''


def gen_ctx_family(ch: Choices):
    """
    Targeted family: a handful of context-reading tasks (in the body, in a default argument,
    through a task call used as default argument, beneath a shallow-validity parent, beneath a
    wrapper that overrides) called with equal arguments under different overrides and under
    none, in simulator-chosen arrangements.  Returns (program, model) where model(root_context)
    is the expected result list.
    """
    from simkit.progs import HEADER, RawProgram
    from simkit.proglib import mix

    def value(base: str, x: int, k: int) -> int:
        if base == "rd" or base == "sh" or base == "wrap":
            return mix("rd", x, k)
        if base == "rdd":
            return mix("rdd", x, k)
        if base == "viadef":
            return mix("viadef", x, mix("rd", 7, k))
        if base == "shdef":
            return mix("shdef", x, mix("rd", 7, k))
        if base == "wrapo":
            return mix("rd", x, 9)
        raise AssertionError(base)

    bases = ["rd", "rdd", "viadef", "sh", "shdef", "wrap", "wrapo"]
    # swarm: each program concentrates on a few of the forms
    focus = [b for b in bases if ch.coin(0.5, "focus")] or ["rd"]
    n = 2 + ch.choice(4, "nitems")
    items, models = [], []
    for _ in range(n):
        base = focus[ch.choice(len(focus), "base")]
        x = ch.choice(2, "x")
        arg = str(x)
        for _ in range(ch.choice(3, "delays")):
            arg = f"delay({arg})"
        ov = [None, None, 1, 2][ch.choice(4, "override")]
        call = f"{base}.update_context({{'k': {ov}}})({arg})" if ov is not None else f"{base}({arg})"
        items.append(call)
        models.append((base, x, ov))
    if ch.coin(0.4, "seq"):
        expr = f"seq([{', '.join(items)}])"
    else:
        expr = "[" + ", ".join(items) + "]"
    src = HEADER.format(ns="vp") + CTX_TASKS + f"@task()\ndef t0():\n    return {expr}\n"

    def model(root: dict) -> list:
        return [value(b, x, ov if ov is not None else root.get("k", 0)) for b, x, ov in models]

    distinct = len({(b, x) for b, x, _ in models}) < len({(b, x, ov) for b, x, ov in models})
    return RawProgram(src), model, distinct


class C05(EngineACheck):
    PROPERTY = "C05"
    RULE = (
        "generated programs in which the same context-reading task is called with identical "
        "arguments under different update_context overrides and under none (as siblings, behind "
        "seq barriers, in different parents), with full and shallow validity, executed 1-3 times "
        "on one backend with differing run() contexts, each under a seeded schedule; every "
        "execution's outcome must equal the reference interpreter's for its effective contexts "
        "(values differ per context by construction, so any sharing is visible); a case is "
        "(program, contexts, schedules); non-trivial = two calls with equal task and arguments but "
        "different effective contexts exist. Half of the programs come from a targeted family "
        "(context read in a body, in a default argument, through a task call used as default "
        "argument, beneath a shallow-validity parent, beneath an overriding wrapper; root context "
        "from the configuration or from run()) judged against a closed-form model"
    )
    EXPECTED_PROBES = ["colliding_calls", "executions_checked", "family_programs"]
    QUICK_SECONDS = 35.0

    def run_family(self, ch: Choices) -> RunOutcome:
        out = RunOutcome()
        prog, model, colliding = gen_ctx_family(ch)
        out.probe("family_programs")
        if colliding:
            out.probe("colliding_calls")
        db = schedsim.fresh_db("ctxfam.db")
        nexec = 1 + ch.choice(3, "nexec")
        w = res = None
        with enginea.ProgramSession(prog) as sess:
            for ex in range(nexec):
                root = [{}, {"k": 5}, {"base": 1}, {"k": 1}][ch.choice(4, "root-context")]
                via_config = bool(ch.choice(2, "root-via-config"))
                res = enginea.simulate(ch, prog, db_path=db, session=sess,
                                       context=root if via_config else {},
                                       run_kwargs={"context": {} if via_config else root})
                w = res.world
                self.fill(out, w, prog, extra_key=f"{ex}{root!r}")
                out.nontrivial = out.nontrivial or colliding
                out.probe("executions_checked")
                if res.outcome[0] == "abort":
                    out.violate("C05.terminates", res.outcome[1], {})
                    break
                want = model(root)
                got = res.outcome[1] if res.outcome[0] == "v" else repr(res.outcome[1])
                if got != want:
                    where = "first-execution" if ex == 0 else "later-execution"
                    bad = [i for i in range(len(want))
                           if not isinstance(got, list) or i >= len(got) or got[i] != want[i]]
                    out.violate("C05.value_reflects_own_context", f"family/{where}",
                                {"execution": ex, "root_context": root, "wrong_items": bad,
                                 "t0": prog.source.split("def t0():")[-1].strip(),
                                 "real": repr(got)[:200], "expected": repr(want)[:200]})
                    break
        if w is not None:
            out.sample = {"t0": prog.source.split("def t0():")[-1].strip(),
                          "schedule_events": [e[2:] for e in w.log[:40]]}
        return out

    def run_one(self, ch: Choices) -> RunOutcome:
        from simkit.progs import walk

        if ch.choice(2, "program-family") == 1:
            return self.run_family(ch)
        out = RunOutcome()
        feats = (set(ALL_FEATURES) | {"ctx"}) - {"errors", "catch", "catchall", "forkjoin", "async"}
        if ch.coin(0.5, "no-defaults"):
            feats -= {"defaults"}
        cfg = GenConfig(features=feats, ctx_mode=None, modes=("thread", "thread", "process"),
                        max_tasks=6, p_ctx=0.5, p_dup=0.5,
                        task_options=[{"check_valid": "shallow"}], p_task_option=0.3)
        prog = Gen(ch, cfg).generate()
        nodes = [n for t in prog.tasks for n in walk(t.body)]
        reads = any(n[0] == "getctx" for n in nodes)
        # calls that differ only in their context override
        seen: dict = {}
        colliding = False
        for n in nodes:
            if n[0] == "call":
                k = (n[1], repr(n[2]), repr(n[3]))
                c = repr(n[4].get("ctx"))
                if k in seen and seen[k] != c:
                    colliding = True
                seen.setdefault(k, c)
        if colliding:
            out.probe("colliding_calls")
        db = schedsim.fresh_db("ctx.db")
        nexec = 1 + ch.choice(3, "nexec")
        sess = enginea.ProgramSession(prog)
        with sess:
            for ex in range(nexec):
                cfg_ctx, run_ctx = gen_root_contexts(ch)
                if ch.coin(0.4, "empty-root"):
                    cfg_ctx, run_ctx = {}, {}
                root = refinterp.merge_dicts([cfg_ctx, run_ctx])
                try:
                    ref = refinterp.Ref(prog, context=root).run()
                except (refinterp.Loose, RecursionError):
                    break
                res = enginea.simulate(ch, prog, db_path=db, session=sess, context=cfg_ctx,
                                       run_kwargs={"context": run_ctx})
                w = res.world
                self.fill(out, w, prog, extra_key=f"{ex}{root!r}")
                out.nontrivial = reads and colliding
                out.probe("executions_checked")
                if res.outcome[0] == "abort":
                    out.violate("C05.terminates", res.outcome[1], {})
                    break
                key = refinterp.okey(res.outcome)
                if key not in ref.keys():
                    where = "first-execution" if ex == 0 else "later-execution"
                    out.violate("C05.value_reflects_own_context", where,
                                {"execution": ex, "real": repr(key)[:300],
                                 "reference": sorted(map(repr, ref.keys()))[:3],
                                 "root_context": root})
                    break
        out.sample = self.sample(prog, w, res) if "w" in dir() else None
        return out


CHECK = C05
