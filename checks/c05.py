"""C05 Results are never shared between calls with different contexts (engines A/B)."""

from __future__ import annotations

from checks.c26 import gen_root_contexts
from simkit import enginea, refinterp, schedsim
from simkit.acheck import EngineACheck
from simkit.choices import Choices
from simkit.progs import ALL_FEATURES, Gen, GenConfig
from simkit.runner import RunOutcome


class C05(EngineACheck):
    PROPERTY = "C05"
    RULE = (
        "generated programs in which the same context-reading task is called with identical "
        "arguments under different update_context overrides and under none (as siblings, behind "
        "seq barriers, in different parents), with full and shallow validity, executed 1-3 times "
        "on one backend with differing run() contexts, each under a seeded schedule; every "
        "execution's outcome must equal the reference interpreter's for its effective contexts "
        "(values differ per context by construction, so any sharing is visible); a case is "
        "(program, contexts, schedules); non-trivial = two calls with equal task and arguments but "
        "different effective contexts exist"
    )
    EXPECTED_PROBES = ["colliding_calls", "executions_checked", "ctxfree_after_ctx_order"]
    QUICK_SECONDS = 35.0

    def run_one(self, ch: Choices) -> RunOutcome:
        from simkit.progs import walk

        out = RunOutcome()
        feats = (set(ALL_FEATURES) | {"ctx"}) - {"errors", "catch", "catchall", "forkjoin", "async",
                                                  "defaults"}
        cfg = GenConfig(features=feats, ctx_mode=None, modes=("thread", "thread", "process"),
                        max_tasks=6, p_ctx=0.5, p_dup=0.5,
                        task_options=[{"check_valid": "shallow"}], p_task_option=0.3)
        prog = Gen(ch, cfg).generate()
        nodes = [n for t in prog.tasks for n in walk(t.body)]
        reads = any(n[0] == "getctx" for n in nodes)
        # calls that differ only in their context override
        seen: dict = {}
        colliding = False
        for n in nodes:
            if n[0] == "call":
                k = (n[1], repr(n[2]), repr(n[3]))
                c = repr(n[4].get("ctx"))
                if k in seen and seen[k] != c:
                    colliding = True
                seen.setdefault(k, c)
        if colliding:
            out.probe("colliding_calls")
        db = schedsim.fresh_db("ctx.db")
        nexec = 1 + ch.choice(3, "nexec")
        sess = enginea.ProgramSession(prog)
        with sess:
            for ex in range(nexec):
                cfg_ctx, run_ctx = gen_root_contexts(ch)
                if ch.coin(0.4, "empty-root"):
                    cfg_ctx, run_ctx = {}, {}
                root = refinterp.merge_dicts([cfg_ctx, run_ctx])
                try:
                    ref = refinterp.Ref(prog, context=root).run()
                except (refinterp.Loose, RecursionError):
                    break
                res = enginea.simulate(ch, prog, db_path=db, session=sess, context=cfg_ctx,
                                       run_kwargs={"context": run_ctx})
                w = res.world
                self.fill(out, w, prog, extra_key=f"{ex}{root!r}")
                out.nontrivial = reads and colliding
                out.probe("executions_checked")
                if res.outcome[0] == "abort":
                    out.violate("C05.terminates", res.outcome[1], {})
                    break
                key = refinterp.okey(res.outcome)
                if key not in ref.keys():
                    where = "first-execution" if ex == 0 else "later-execution"
                    out.violate("C05.value_reflects_own_context", where,
                                {"execution": ex, "real": repr(key)[:300],
                                 "reference": sorted(map(repr, ref.keys()))[:3],
                                 "root_context": root})
                    break
        out.sample = self.sample(prog, w, res) if "w" in dir() else None
        return out


CHECK = C05
