"""C30 File value hashes track the filesystem (engine D, model-based on a real tmpfs)."""

from __future__ import annotations

import hashlib
import logging
import os
import pickle
import shutil

from simkit import schedsim
from simkit.choices import Choices
from simkit.runner import Check, RunOutcome


class C30(Check):
    PROPERTY = "C30"
    RULE = (
        "seeded histories of <= 20 operations per file value class (File, ContentFile, IFile, Dir, "
        "FileSet, ContentDir members) on a real tmpfs directory: write / append / read-write "
        "through File.open and File.write, copy_to, stage / unstage, Dir.mkdir / rmdir, external "
        "remove / rewrite / touch with mtimes taken from a simulated clock (advance, stand still, "
        "jump back), update_hash, pickle round trip; after every redun-mediated write the value's "
        "hash is compared with a freshly constructed value's hash, is_valid with (recorded == "
        "fresh), content hashes with the bytes, and hashing a missing path must not raise; a case "
        "is an operation history; non-trivial = it contains an external change between two "
        "redun-mediated operations"
    )
    ASSUMPTIONS = ["local filesystem only (tmpfs); S3/GCS/Azure/HTTP filesystems are not exercised",
                   "mtime-based hashes cannot see a rewrite that keeps size and mtime; such "
                   "rewrites are generated only for the content-hashed classes"]
    COMPONENTS_REAL = ["redun.file.File / ContentFile / IFile / Dir / FileSet / StagingFile",
                       "redun.file.LocalFileSystem (get_hash, copy, glob, open)"]
    COMPONENTS_STUB = ["clock: mtimes are set from a simulated clock with os.utime after external "
                       "writes"]
    EXPECTED_PROBES = ["external_changes", "missing_path_hashes", "pickle_roundtrips", "copies",
                       "stages"]
    QUICK_SECONDS = 25.0

    def setup(self) -> None:
        logging.disable(logging.CRITICAL)

    def run_one(self, ch: Choices) -> RunOutcome:
        from redun.file import ContentFile, Dir, File, FileSet, IFile, StagingFile

        out = RunOutcome()
        root = os.path.join(schedsim.scratch_dir(), "c30")
        shutil.rmtree(root, ignore_errors=True)
        os.makedirs(root)
        klass = [File, ContentFile, IFile, File][ch.choice(4, "class")]
        use_dir = klass is File and ch.coin(0.4, "with-dir")
        clock = [1_700_000_000.0]
        paths = [os.path.join(root, "d", f"f{i}.txt") for i in range(3)]
        os.makedirs(os.path.join(root, "d"))
        vals = {p: klass(p) for p in paths}
        d = Dir(os.path.join(root, "d")) if use_dir else None
        fs = FileSet(os.path.join(root, "d", "*.txt")) if use_dir else None
        ops = []
        content_seen: dict = {}
        dir_seen = None

        def tick():
            k = ch.choice(4, "clock")
            if k <= 1:
                clock[0] += 1 + ch.choice(5, "dt")
            elif k == 3:
                clock[0] -= 3  # the clock jumps back
            return clock[0]

        def fresh_hash(v):
            try:
                return type(v)(v.path).hash
            except Exception as e:
                return ("raises", type(e).__name__)

        def bytes_of(p):
            try:
                with open(p, "rb") as f:
                    return f.read()
            except OSError:
                return None

        def violate(oracle, sig, detail):
            detail["ops"] = ops
            detail["class"] = klass.__name__
            out.violate(oracle, f"{klass.__name__}:{sig}", detail)

        nops = 2 + ch.choice(19, "nops")
        try:
            for step in range(nops):
                p = paths[ch.choice(len(paths), "path")]
                v = vals[p]
                k = ch.choice(12, "op")
                data = f"data{ch.choice(4, 'data')}" * [1, 2, 3, 400][ch.choice(4, "len")]
                mediated = False
                try:
                    if k == 0:
                        v.write(data)
                        op, mediated = ("write", os.path.basename(p), data), True
                    elif k == 1:
                        mode = ["a", "w", "r+"][ch.choice(3, "mode")]
                        if mode == "r+" and not os.path.exists(p):
                            mode = "w"
                        with v.open(mode) as f:
                            f.write(data)
                        op, mediated = ("open-write", os.path.basename(p), mode, data), True
                    elif k == 2:
                        src = vals[paths[ch.choice(len(paths), "copy-src")]]
                        if not os.path.exists(src.path) or src.path == p:
                            continue
                        src.copy_to(v)
                        out.probe("copies")
                        op, mediated = ("copy_to", os.path.basename(src.path), os.path.basename(p)), True
                    elif k == 3:
                        # external rewrite (not through redun) with a simulated mtime
                        same_size = klass is ContentFile and ch.coin(0.5, "same-size")
                        old = bytes_of(p)
                        new = data.encode()
                        if same_size and old:
                            new = bytes((b + 1) % 256 for b in old)
                            if ch.coin(0.5, "tail-only"):
                                # only the very last byte differs (content hashes cover it all)
                                new = old[:-1] + bytes([(old[-1] + 1) % 256])
                        with open(p, "wb") as f:
                            f.write(new)
                        t = tick()
                        os.utime(p, (t, t))
                        out.probe("external_changes")
                        op = ("external-rewrite", os.path.basename(p), len(new), t)
                    elif k == 4:
                        if os.path.exists(p):
                            os.unlink(p)
                            out.probe("external_changes")
                        op = ("external-remove", os.path.basename(p))
                    elif k == 5:
                        if not os.path.exists(p):
                            continue
                        t = tick()
                        os.utime(p, (t, t))
                        out.probe("external_changes")
                        op = ("external-touch", os.path.basename(p), t)
                    elif k == 6:
                        v.update_hash()
                        op, mediated = ("update_hash", os.path.basename(p)), True
                    elif k == 7:
                        v2 = pickle.loads(pickle.dumps(v))
                        out.probe("pickle_roundtrips")
                        if v2.hash != v.hash or v2.path != v.path:
                            violate("C30.pickle_preserves_hash", "differs", {"path": p})
                            break
                        vals[p] = v = v2
                        op = ("pickle", os.path.basename(p))
                    elif k == 8 and klass is File:
                        # stage: copy "remote" p to a local path, unstage back
                        if not os.path.exists(p):
                            continue
                        local = os.path.join(root, "local_" + os.path.basename(p))
                        st = StagingFile(local, p)
                        lf = st.stage()
                        out.probe("stages")
                        if lf.hash != File(local).hash:
                            violate("C30.hash_fresh_after_write", "stage",
                                    {"path": local})
                            break
                        with lf.open("a") as f:
                            f.write("x")
                        rf = st.unstage()
                        if rf.hash != File(p).hash:
                            violate("C30.hash_fresh_after_write", "unstage", {"path": p})
                            break
                        vals[p] = v = rf
                        op, mediated = ("stage-edit-unstage", os.path.basename(p)), True
                    elif k == 9 and d is not None:
                        sub = Dir(os.path.join(root, "d", "sub"))
                        if sub.exists():
                            sub.rmdir(recursive=True)
                            op = ("rmdir", "sub")
                        else:
                            sub.mkdir()
                            File(os.path.join(sub.path, "g.txt")).write(data)
                            op = ("mkdir+write", "sub")
                        d.update_hash()
                        fs.update_hash()
                    elif k == 10:
                        # hashing a path that does not exist
                        # ... for any reason a path can be missing: no such entry, no such
                        # directory, a regular file where a directory is expected, a name the
                        # filesystem cannot even hold
                        kind = ch.choice(4, "missing-kind")
                        if kind == 0:
                            gpath = os.path.join(root, "d", "ghost.txt")
                        elif kind == 1:
                            gpath = os.path.join(root, "nodir", "deeper", "ghost.txt")
                        elif kind == 2:
                            plain = os.path.join(root, "plainfile")
                            with open(plain, "w") as f:
                                f.write("x")
                            gpath = os.path.join(plain, "ghost.txt")
                        else:
                            gpath = os.path.join(root, "g" * 300 + ".txt")
                        ghost = klass(gpath)
                        try:
                            h1 = ghost.hash
                            h2 = klass(ghost.path).hash
                            valid = ghost.is_valid()
                        except Exception as e:
                            violate("C30.missing_path_hash", f"raises-{type(e).__name__}",
                                    {"error": repr(e)[:200], "missing_kind": kind})
                            break
                        out.probe("missing_path_hashes")
                        if h1 != h2:
                            violate("C30.missing_path_hash", "not-deterministic", {})
                            break
                        op = ("hash-missing",)
                    else:
                        op = ("noop",)
                except Exception as e:
                    ops.append(("op-raised", k, type(e).__name__))
                    if not os.path.exists(p) and k in (1, 6) and klass is not ContentFile:
                        continue
                    violate("C30.operation_does_not_raise", f"op{k}-{type(e).__name__}",
                            {"error": repr(e)[:300], "exists": os.path.exists(p)})
                    break
                ops.append(op)
                # ---- oracles after the operation --------------------------------------
                for q, val in vals.items():
                    fh = fresh_hash(val)
                    if isinstance(fh, tuple):
                        violate("C30.missing_path_hash", f"fresh-hash-{fh[1]}",
                                {"path": os.path.basename(q), "exists": os.path.exists(q)})
                        break
                    if val._hash is None:
                        continue
                    if mediated and q == p and val.hash != fh:
                        violate("C30.hash_fresh_after_write", op[0],
                                {"path": os.path.basename(q), "recorded": val.hash[:8], "fresh": fh[:8]})
                        break
                    try:
                        valid = val.is_valid()
                    except Exception as e:
                        violate("C30.is_valid_never_raises", type(e).__name__,
                                {"path": os.path.basename(q), "exists": os.path.exists(q)})
                        break
                    want = True if klass is IFile else (val.hash == fh)
                    if valid != want:
                        violate("C30.valid_iff_hash_current", op[0],
                                {"path": os.path.basename(q), "is_valid": valid,
                                 "recorded": val.hash[:8], "fresh": fh[:8]})
                        break
                    if klass is ContentFile and os.path.exists(q):
                        b = bytes_of(q)
                        prev = content_seen.get(q)
                        if prev is not None and (prev[0] == b) != (prev[1] == fh):
                            violate("C30.content_hash_iff_bytes", op[0],
                                    {"path": os.path.basename(q), "bytes_equal": prev[0] == b,
                                     "hash_equal": prev[1] == fh})
                            break
                        content_seen[q] = (b, fh)
                if out.violations:
                    break
                if d is not None:
                    # independent model of the directory: its (fresh) hash changes exactly when
                    # the set of (relative path, size, mtime) of the files beneath it does
                    state = tuple(sorted(
                        (os.path.relpath(os.path.join(r, f), d.path),) + (lambda st: (st.st_size, st.st_mtime))(os.stat(os.path.join(r, f)))
                        for r, _ds, fl in os.walk(d.path) for f in fl))
                    fresh_dir = Dir(d.path).hash
                    if dir_seen is not None and (dir_seen[0] == state) != (dir_seen[1] == fresh_dir):
                        violate("C30.dir_hash_tracks_members", f"Dir:{op[0]}",
                                {"members_equal": dir_seen[0] == state,
                                 "hash_equal": dir_seen[1] == fresh_dir,
                                 "members": [m[0] for m in state][:6]})
                        break
                    if dir_seen is not None and dir_seen[0] != state and \
                            any(os.sep in m[0] for m in set(state) ^ set(dir_seen[0])):
                        out.probe("nested_member_changes")
                    dir_seen = (state, fresh_dir)
                    for coll, name in ((d, "Dir"), (fs, "FileSet")):
                        fresh = type(coll)(coll.path if name == "Dir" else coll.pattern).hash
                        valid = coll.is_valid()
                        if valid != (coll.hash == fresh):
                            violate("C30.valid_iff_hash_current", f"{name}:{op[0]}",
                                    {"is_valid": valid, "recorded": coll.hash[:8], "fresh": fresh[:8]})
                            break
                    if out.violations:
                        break
        finally:
            shutil.rmtree(root, ignore_errors=True)
        out.steps = len(ops)
        out.key = hashlib.sha256(repr((klass.__name__, ops)).encode()).hexdigest()[:20]
        out.digest = hashlib.sha256(repr([o[:2] for o in ops]).encode()).hexdigest()[:20]
        out.nontrivial = bool(out.probes.get("external_changes"))
        out.sample = {"class": klass.__name__, "with_dir": bool(use_dir), "ops": ops}
        return out


CHECK = C30
