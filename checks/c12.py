"""C12 Failures propagate and are never replayed from the cache (engines A/B)."""

from __future__ import annotations

from simkit import enginea, proglib, refinterp, schedsim
from simkit.acheck import EngineACheck
from simkit.choices import Choices
from simkit.dbview import DbView
from simkit.progs import ALL_FEATURES, Gen, GenConfig
from simkit.runner import RunOutcome


class C12(EngineACheck):
    PROPERTY = "C12"
    RULE = (
        "generated programs with one failing leaf at any depth (inside containers, cond, seq, map_, "
        "partial tasks; uncaught, or under a catch for another class), executed 2-3 times on one "
        "backend (in half of the cases under a non-empty run() context) under full and shallow validity, each under its own seeded schedule; oracles over "
        "the run outcome, the recorded database rows and the task-function execution counter; a "
        "case is (program, schedule signatures); non-trivial = the failure was uncaught"
    )
    EXPECTED_PROBES = ["uncaught_failures", "caught_failures", "second_execution_reexecutes_leaf",
                       "cases_with_context"]
    QUICK_SECONDS = 35.0

    def run_one(self, ch: Choices) -> RunOutcome:
        out = RunOutcome()
        feats = set(ALL_FEATURES) - {"catchall", "forkjoin"}
        cfg = GenConfig(
            features=feats, p_error=1.0, modes=("thread", "thread", "process"),
            error_classes=("ValueError", "KeyError", "ErrA", "ErrB", "ErrRes"),
            p_dup=0.2, max_tasks=7,
            task_options=[{"check_valid": "shallow"}], p_task_option=0.3,
            limit_names=("r1",), p_limit=0.2,
        )
        prog = Gen(ch, cfg).generate()
        raising = [t for t in prog.tasks if t.raises]
        try:
            ref = refinterp.Ref(prog).run()
        except (refinterp.Loose, RecursionError):
            return out
        if len(ref.outs) != 1:
            return out
        expect = ref.outs[0]
        if expect[0] == "v":
            out.probe("caught_failures")
        else:
            out.probe("uncaught_failures")
            out.nontrivial = True
        db = schedsim.fresh_db("run.db")
        nexec = 2 + ch.choice(2, "nexec")
        # Half of the cases run under a non-empty context (the same in every execution): the
        # cache and CSE lookups then take their context-tagged paths.
        root_ctx = [None, None, {"env": 1}, {"stage": {"name": "dev", "n": 2}}][ch.choice(4, "root-context")]
        if root_ctx:
            out.probe("cases_with_context")
        sess = enginea.ProgramSession(prog)
        with sess:
            for ex in range(nexec):
                proglib.reset_hits()
                res = enginea.simulate(ch, prog, db_path=db, session=sess,
                                       run_kwargs={"context": root_ctx} if root_ctx else None)
                w, rec = res.world, res.rec
                self.fill(out, w, prog, extra_key=str(ex))
                out.nontrivial = expect[0] == "e"
                if res.outcome[0] == "abort":
                    out.violate("C12.terminates", res.outcome[1], {"execution": ex})
                    break
                key = refinterp.okey(res.outcome)
                if key != refinterp.okey(expect):
                    out.violate("C12.error_identity" if expect[0] == "e" else "C12.caught_value",
                                f"execution-{min(ex, 1)}",
                                {"execution": ex, "real": repr(key)[:300],
                                 "expected": repr(refinterp.okey(expect))[:300]})
                    break
                if expect[0] != "e":
                    continue
                # The failing leaf's function ran in this execution (never replayed).
                # (only when the expected error is the one a raising leaf task throws; an error
                # from a lazy operator such as division by zero has no task function to count)
                culprits = [t for t in raising if expect[1].args == (t.raises[1],)]
                leaf_hits = sum(n for (name, _), n in proglib.HITS.items()
                                if any(name == t.name for t in culprits))
                if culprits and leaf_hits == 0:
                    out.violate("C12.failed_call_reexecuted", f"execution-{min(ex, 1)}",
                                {"execution": ex, "hits": sorted(map(repr, proglib.HITS))[:10]})
                elif culprits and ex > 0:
                    out.probe("second_execution_reexecutes_leaf")
                # The workflow stops: nothing is handed to a pool after the root was rejected.
                if rec.handoff_after_root:
                    out.violate("C12.workflow_stops", "handoff-after-root-rejected",
                                {"jobs": [rec.jobs[j].task for j in rec.handoff_after_root]})
                self.check_db(out, db, rec, ex)
        out.sample = self.sample(prog, w, res)
        return out

    def check_db(self, out: RunOutcome, db: str, rec, ex: int) -> None:
        view = DbView(db)
        try:
            # Chain: every rejected job that executed, whose rejection reached the root.
            by_id = rec.jobs
            root = next((by_id[j] for j in rec.order if by_id[j].parent is None), None)
            if root is None or root.outcome is None or root.outcome[0] != "e":
                out.violate("C12.root_failed", "root-not-rejected", {"root": root and root.task})
                return
            # Find failing chains: leaves = rejected jobs without rejected children.
            rejected = [by_id[j] for j in rec.order
                        if by_id[j].outcome and by_id[j].outcome[0] == "e" and by_id[j].exec_count]
            for r in rejected:
                # only jobs whose error is the root's error are on the propagating chain
                if r.outcome != root.outcome:
                    continue
                row = view.one("job", "id = ?", (r.id,))
                if row is None:
                    if r.prov:
                        out.violate("C12.recorded_failed", "job-row-missing", {"task": r.task})
                    continue
                if row["end_time"] is None:
                    out.violate("C12.recorded_failed", "no-end-time",
                                {"task": r.task, "cached": row["cached"]})
                    continue
                cn = view.one("call_node", "call_hash = ?", (row["call_hash"],)) if row["call_hash"] else None
                if cn is None:
                    out.violate("C12.recorded_failed", "no-call-node", {"task": r.task})
                    continue
                val = view.one("value", "value_hash = ?", (cn["value_hash"],))
                if val is None or val["type"] != "redun.ErrorValue":
                    out.violate("C12.recorded_failed", "call-node-value-not-error",
                                {"task": r.task, "type": val and val["type"]})
        finally:
            view.close()


CHECK = C12
