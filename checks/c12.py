"""C12 Failures propagate and are never replayed from the cache (engines A/B)."""

from __future__ import annotations

from simkit import enginea, proglib, refinterp, schedsim
from simkit.acheck import EngineACheck
from simkit.choices import Choices
from simkit.dbview import DbView
from simkit.progs import ALL_FEATURES, HEADER, Gen, GenConfig, RawProgram
from simkit.runner import RunOutcome


def recorded_form(outcome: tuple, expect: tuple) -> bool:
    """
    An error that cannot be serialized is recorded as Exception(repr(error)) (documented in
    _reject_job_main_thread); an equal failing call that is served from that record (CSE) fails
    with the recorded form. Only ErrRes, which is built to be unserializable, can take it.
    """
    return (outcome[0] == "e" and expect[0] == "e" and type(expect[1]).__name__ == "ErrRes"
            and type(outcome[1]) is Exception and outcome[1].args == (repr(expect[1]),))


def gen_orphan_program(ch: Choices) -> RawProgram:
    """
    Targeted family: a parent job fails because of one child while its other children still
    wait for their arguments (delay chains, cached in the second execution); the same parent
    call is planted several times, below wrappers of different depth, so that the late children
    of an already failed parent meet equal jobs that are running, done or failed.
    """
    L = [HEADER.format(ns="vp")]
    L.append("@task()\ndef delay(x):\n    return x\n\n")
    twin_opts = ["", "cache=False", "cache_scope='CSE'", "check_valid='shallow'",
                 "executor='process'"][ch.choice(5, "twin-options")]
    twin_fails = ch.coin(0.5, "twin-fails")
    body = "    hit('twin', x)\n" + ("    raise ValueError('boom-twin')\n" if twin_fails else "")
    L.append(f"@task({twin_opts})\ndef twin(x):\n{body}    return mix('twin', x)\n\n")
    bad_kind = ch.choice(3, "bad-kind")
    if bad_kind == 2:
        # rejected by the scheduler itself, on its own thread
        L.append("@task(executor='nope')\ndef bad(x):\n    return x\n\n")
    else:
        cls = ["ValueError", "ErrRes"][bad_kind]
        L.append(f"@task()\ndef bad(x):\n    hit('bad', x)\n    raise {cls}('boom-bad')\n\n")

    def delayed(c: str, label: str) -> str:
        for _ in range(ch.choice(5, label)):
            c = f"delay({c})"
        return c

    nparents = 1 + ch.choice(2, "nparents")
    for i in range(nparents):
        kids = [f"bad({delayed(str(ch.choice(2, 'bad-arg')), 'bad-delays')})"]
        for _ in range(1 + ch.choice(2, "ntwins")):
            kids.append(f"twin({delayed(str(ch.choice(2, 'twin-arg')), 'twin-delays')})")
        kids = ch.shuffle(kids, "kid-order")
        L.append(f"@task()\ndef parent{i}(x):\n    return [{', '.join(kids)}]\n\n")
    L.append("@task()\ndef wrap(n, p, x):\n    if n == 0:\n"
             "        return [parent0, parent1][p](x) if p else parent0(x)\n"
             "    return wrap(n - 1, p, x)\n\n" if nparents == 2 else
             "@task()\ndef wrap(n, p, x):\n    if n == 0:\n        return parent0(x)\n"
             "    return wrap(n - 1, p, x)\n\n")
    items = []
    for _ in range(2 + ch.choice(3, "nitems")):
        k = ch.choice(4, "item-kind")
        if k == 0:
            items.append(f"twin({delayed(str(ch.choice(2, 'twin-arg')), 'twin-delays')})")
        else:
            # (the same parent call several times: equal late children under different parents)
            items.append(f"wrap({ch.choice(6, 'depth')}, {ch.choice(nparents, 'which-parent')}, "
                         f"{ch.choice(2, 'parent-arg')})")
    if not any(x.startswith("wrap") for x in items):
        items.append("wrap(3, 0, 0)")
    L.append(f"@task()\ndef t0():\n    return [{', '.join(items)}]\n")
    prog = RawProgram("".join(L))
    prog.task_errors = {("ValueError", "boom-twin"), ("ValueError", "boom-bad"),
                        ("ErrRes", "boom-bad"), ("SchedulerError", 'Unknown executor "nope"')}
    return prog


class C12(EngineACheck):
    PROPERTY = "C12"
    RULE = (
        "generated programs with one failing leaf at any depth (inside containers, cond, seq, map_, "
        "partial tasks; uncaught, or under a catch for another class), executed 2-3 times on one "
        "backend (in half of the cases under a non-empty run() context) under full and shallow validity, each under its own seeded schedule; oracles over "
        "the run outcome, the recorded database rows and the task-function execution counter; a "
        "case is (program, schedule signatures); non-trivial = the failure was uncaught"
    )
    EXPECTED_PROBES = ["uncaught_failures", "caught_failures", "second_execution_reexecutes_leaf",
                       "cases_with_context", "orphan_family_programs",
                       "collapsed_under_failed_parent"]
    QUICK_SECONDS = 35.0

    def run_orphan_family(self, ch: Choices, out: RunOutcome) -> RunOutcome:
        """
        The error run() raises is one that a task of the program raised (never an error of the
        scheduler's own bookkeeping), in every execution; a failing task function runs again in
        every execution.
        """
        prog = gen_orphan_program(ch)
        out.probe("orphan_family_programs")
        out.nontrivial = True
        db = schedsim.fresh_db("run.db")
        sess = enginea.ProgramSession(prog)
        with sess:
            for ex in range(2 + ch.choice(2, "nexec")):
                proglib.reset_hits()
                res = enginea.simulate(ch, prog, db_path=db, session=sess)
                w, rec = res.world, res.rec
                self.fill(out, w, prog, extra_key=str(ex))
                if res.outcome[0] == "abort":
                    out.violate("C12.terminates", "orphan-family/" + str(res.outcome[1]),
                                {"execution": ex})
                    break
                if res.outcome[0] != "e":
                    out.violate("C12.error_identity", "orphan-family/run-returned",
                                {"execution": ex, "value": repr(res.outcome[1])[:200]})
                    break
                err = res.outcome[1]
                if (type(err).__name__, str(err.args[0]) if err.args else "") not in prog.task_errors \
                        and not recorded_form(res.outcome, ("e", proglib.ErrRes("boom-bad"))):
                    out.violate("C12.error_identity", "orphan-family/not-a-task-error",
                                {"execution": ex, "real": repr(err)[:300]})
                    break
                if rec.collapsed_under_settled_parent:
                    out.probe("collapsed_under_failed_parent")
                failing = {name for (name, _), n in proglib.HITS.items() if n}
                raised = {"bad": "boom-bad", "twin": "boom-twin"}
                culprit = next((t for t, m in raised.items() if err.args and err.args[0] == m), None)
                if culprit and culprit not in failing:
                    out.violate("C12.failed_call_reexecuted", f"orphan-family/execution-{min(ex, 1)}",
                                {"execution": ex, "hits": sorted(map(repr, proglib.HITS))[:10]})
                elif culprit and ex > 0:
                    out.probe("second_execution_reexecutes_leaf")
        out.sample = self.sample(prog, w, res)
        return out

    def run_one(self, ch: Choices) -> RunOutcome:
        out = RunOutcome()
        if ch.choice(4, "program-family") == 3:
            return self.run_orphan_family(ch, out)
        feats = set(ALL_FEATURES) - {"catchall", "forkjoin"}
        cfg = GenConfig(
            features=feats, p_error=1.0, modes=("thread", "thread", "process"),
            error_classes=("ValueError", "KeyError", "ErrA", "ErrB", "ErrRes"),
            p_dup=0.2, max_tasks=7,
            task_options=[{"check_valid": "shallow"}], p_task_option=0.3,
            limit_names=("r1",), p_limit=0.2,
        )
        prog = Gen(ch, cfg).generate()
        raising = [t for t in prog.tasks if t.raises]
        try:
            ref = refinterp.Ref(prog).run()
        except (refinterp.Loose, RecursionError):
            return out
        if len(ref.outs) != 1:
            return out
        expect = ref.outs[0]
        if expect[0] == "v":
            out.probe("caught_failures")
        else:
            out.probe("uncaught_failures")
            out.nontrivial = True
        db = schedsim.fresh_db("run.db")
        nexec = 2 + ch.choice(2, "nexec")
        # Half of the cases run under a non-empty context (the same in every execution): the
        # cache and CSE lookups then take their context-tagged paths.
        root_ctx = [None, None, {"env": 1}, {"stage": {"name": "dev", "n": 2}}][ch.choice(4, "root-context")]
        if root_ctx:
            out.probe("cases_with_context")
        sess = enginea.ProgramSession(prog)
        with sess:
            for ex in range(nexec):
                proglib.reset_hits()
                res = enginea.simulate(ch, prog, db_path=db, session=sess,
                                       run_kwargs={"context": root_ctx} if root_ctx else None)
                w, rec = res.world, res.rec
                self.fill(out, w, prog, extra_key=str(ex))
                out.nontrivial = expect[0] == "e"
                if res.outcome[0] == "abort":
                    out.violate("C12.terminates", res.outcome[1], {"execution": ex})
                    break
                key = refinterp.okey(res.outcome)
                if key != refinterp.okey(expect) and not recorded_form(res.outcome, expect):
                    out.violate("C12.error_identity" if expect[0] == "e" else "C12.caught_value",
                                f"execution-{min(ex, 1)}",
                                {"execution": ex, "real": repr(key)[:300],
                                 "expected": repr(refinterp.okey(expect))[:300]})
                    break
                if expect[0] != "e":
                    continue
                # The failing leaf's function ran in this execution (never replayed).
                # (only when the expected error is the one a raising leaf task throws; an error
                # from a lazy operator such as division by zero has no task function to count)
                culprits = [t for t in raising if expect[1].args == (t.raises[1],)]
                leaf_hits = sum(n for (name, _), n in proglib.HITS.items()
                                if any(name == t.name for t in culprits))
                if culprits and leaf_hits == 0:
                    out.violate("C12.failed_call_reexecuted", f"execution-{min(ex, 1)}",
                                {"execution": ex, "hits": sorted(map(repr, proglib.HITS))[:10]})
                elif culprits and ex > 0:
                    out.probe("second_execution_reexecutes_leaf")
                # The workflow stops: nothing is handed to a pool after the root was rejected.
                if rec.handoff_after_root:
                    out.violate("C12.workflow_stops", "handoff-after-root-rejected",
                                {"jobs": [rec.jobs[j].task for j in rec.handoff_after_root]})
                self.check_db(out, db, rec, ex)
        out.sample = self.sample(prog, w, res)
        return out

    def check_db(self, out: RunOutcome, db: str, rec, ex: int) -> None:
        view = DbView(db)
        try:
            # Chain: every rejected job that executed, whose rejection reached the root.
            by_id = rec.jobs
            root = next((by_id[j] for j in rec.order if by_id[j].parent is None), None)
            if root is None or root.outcome is None or root.outcome[0] != "e":
                out.violate("C12.root_failed", "root-not-rejected", {"root": root and root.task})
                return
            # Find failing chains: leaves = rejected jobs without rejected children.
            rejected = [by_id[j] for j in rec.order
                        if by_id[j].outcome and by_id[j].outcome[0] == "e" and by_id[j].exec_count]
            for r in rejected:
                # only jobs whose error is the root's error are on the propagating chain
                if r.outcome != root.outcome:
                    continue
                row = view.one("job", "id = ?", (r.id,))
                if row is None:
                    if r.prov:
                        out.violate("C12.recorded_failed", "job-row-missing", {"task": r.task})
                    continue
                if row["end_time"] is None:
                    out.violate("C12.recorded_failed", "no-end-time",
                                {"task": r.task, "cached": row["cached"]})
                    continue
                cn = view.one("call_node", "call_hash = ?", (row["call_hash"],)) if row["call_hash"] else None
                if cn is None:
                    out.violate("C12.recorded_failed", "no-call-node", {"task": r.task})
                    continue
                val = view.one("value", "value_hash = ?", (cn["value_hash"],))
                if val is None or val["type"] != "redun.ErrorValue":
                    out.violate("C12.recorded_failed", "call-node-value-not-error",
                                {"task": r.task, "type": val and val["type"]})
        finally:
            view.close()


CHECK = C12
