"""C27 Task options follow the documented precedence (engine A)."""

from __future__ import annotations

from simkit import enginea, refinterp
from simkit.acheck import EngineACheck
from simkit.choices import Choices
from simkit.progs import ALL_FEATURES, OPT_KEYS, Gen, GenConfig
from simkit.runner import RunOutcome


class C27(EngineACheck):
    PROPERTY = "C27"
    RULE = (
        "generated job trees with marker options set at definition (@task(oa=..), "
        "@task(export_options=..), prov=False), at call time (.options(..)), exported at call time "
        "(.export_options(..), in either chaining order with .options), including option values "
        "that are task calls, optionally run with cache=False; the option dict each job is handed "
        "to its executor with is compared with the set the reference interpreter computes for "
        "that (task, arguments); a case is (program, schedule signature); non-trivial = some job "
        "received an option through export from an ancestor or an expression-valued option"
    )
    ASSUMPTIONS = EngineACheck.ASSUMPTIONS + [
        "the schedule dimension is incidental (the property quantifies over programs)"]
    EXPECTED_PROBES = ["jobs_compared", "exported_options_inherited", "expression_valued_options",
                       "export_then_options_chains", "runs_with_cache_disabled",
                       "jobs_with_cache_scope_option"]
    QUICK_SECONDS = 30.0

    def run_one(self, ch: Choices) -> RunOutcome:
        from simkit.progs import walk

        out = RunOutcome()
        feats = set(ALL_FEATURES) - {"errors", "catch", "catchall", "forkjoin", "partial", "async"}
        cfg = GenConfig(features=feats, opt_mode=True, modes=("thread", "thread", "process"),
                        max_tasks=7, p_dup=0.0)
        prog = Gen(ch, cfg).generate()
        nodes = [n for t in prog.tasks for n in walk(t.body)]
        calls = [n for n in nodes if n[0] == "call"]
        if any(n[4].get("export_first") for n in calls):
            out.probe("export_then_options_chains")
        expr_opts = any(isinstance(v, tuple) and v[0] == "call"
                        for n in calls for grp in ("options", "export")
                        for v in (n[4].get(grp) or {}).values())
        if expr_opts:
            out.probe("expression_valued_options")
        try:
            ref = refinterp.Ref(prog)
            ref_out = ref.run()
        except (refinterp.Loose, RecursionError):
            return out
        no_cache = bool(ch.choice(3, "cache-off") == 2)
        if no_cache:
            out.probe("runs_with_cache_disabled")
        res = enginea.simulate(ch, prog, run_kwargs={"cache": not no_cache})
        w, rec = res.world, res.rec
        self.fill(out, w, prog)
        if res.outcome[0] != "v":
            out.sample = self.sample(prog, w, res)
            return out
        inherited_seen = False
        for jid in rec.order:
            r = rec.jobs[jid]
            if not r.handoffs or not r.task.startswith("vp.t") or r.bound_args is None:
                continue
            name = r.task.split(".", 1)[1]
            expected = ref.option_log.get((name, r.bound_args))
            if not expected:
                continue  # reached through a form the reference does not log (e.g. option expr)
            keys = OPT_KEYS + ("prov",)
            got = {k: r.options[k] for k in keys if k in r.options}
            want = [{k: e[k] for k in keys if k in e} for e in expected]
            out.probe("jobs_compared")
            t = prog.tasks[int(name[1:])]
            if any(k in got and k not in t.options and k not in t.def_export for k in OPT_KEYS):
                inherited_seen = True
            if got not in want:
                # which layer disagrees?
                layer = "value"
                if set(got) != set(want[0]):
                    layer = "missing-key" if set(want[0]) - set(got) else "extra-key"
                out.violate("C27.options_at_handoff", layer,
                            {"task": r.task, "args": repr(r.bound_args)[:120], "got": got,
                             "reference_allows": want[:3]})
                break
            if no_cache and "CSE" not in str(r.cache_scope) and "NONE" not in str(r.cache_scope):
                out.violate("C27.scheduler_imposed", "cache-not-downgraded",
                            {"task": r.task, "cache_scope": r.cache_scope})
                break
            if got.get("prov") is False and "NONE" not in str(r.cache_scope):
                out.violate("C27.scheduler_imposed", "noprov-job-uses-cache",
                            {"task": r.task, "cache_scope": r.cache_scope})
                break
            # The cache scope itself is an option: definition < exported < call time, then what
            # the scheduler imposes (no provenance -> NONE; cache disabled -> CSE).
            if any("cache_scope" in e for e in expected):
                out.probe("jobs_with_cache_scope_option")
            allowed = set()
            for e in expected:
                if e.get("prov") is False:
                    allowed.add("NONE")
                elif no_cache:
                    allowed.add("CSE")
                else:
                    allowed.add(str(e.get("cache_scope", "BACKEND")).replace("CacheScope.", ""))
            scope = str(r.cache_scope).replace("CacheScope.", "")
            if scope == "None":
                scope = "BACKEND"
            if scope not in allowed:
                out.violate("C27.scheduler_imposed" if no_cache else "C27.options_at_handoff",
                            "cache-scope",
                            {"task": r.task, "cache_scope": r.cache_scope,
                             "reference_allows": sorted(allowed), "cache_disabled": no_cache})
                break
        if inherited_seen:
            out.probe("exported_options_inherited")
        out.nontrivial = inherited_seen or expr_opts
        out.sample = self.sample(prog, w, res)
        return out


CHECK = C27
