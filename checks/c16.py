"""C16 Value hashes depend only on the value (engine E: several interpreter nodes)."""

from __future__ import annotations

import hashlib
import json
import os
import subprocess
import sys

from simkit.choices import Choices
from simkit.runner import VERIF_DIR, Check, RunOutcome


def gen_spec(ch: Choices, depth: int = 0) -> dict:
    k = ch.choice(12 if depth < 3 else 5, "kind")
    if k == 0:
        return {"t": "int", "v": ch.choice(50, "int") - 5}
    if k == 1:
        return {"t": "str", "v": ["", "a", "b", "ab", "x y", "é"][ch.choice(6, "str")]}
    if k == 2:
        return {"t": "none", "v": None}
    if k == 3:
        return {"t": "bool", "v": bool(ch.choice(2, "bool"))}
    if k == 4:
        # (several floats equal an int of the generated range: 3 == 3.0, 0 == 0.0 == -0.0)
        return {"t": "float", "v": [0.5, -1.25, 3.0, 0.0, -0.0, 1.0][ch.choice(6, "float")]}
    n = ch.choice(4, "len")
    if k == 5:
        return {"t": "list", "v": [gen_spec(ch, depth + 1) for _ in range(n)]}
    if k == 6:
        return {"t": "tuple", "v": [gen_spec(ch, depth + 1) for _ in range(n)]}
    if k in (7, 8):
        # sets need hashable members: scalars, tuples of scalars, frozensets
        return {"t": "set" if k == 7 else "frozenset",
                "v": [gen_hashable(ch, depth + 1) for _ in range(1 + n)]}
    if k == 9:
        # (dict insertion order is the same on every node: the statement is about sets)
        return {"t": "dict", "shuffle": False,
                "v": [[gen_hashable(ch, depth + 1), gen_spec(ch, depth + 1)] for _ in range(n)]}
    if k == 10:
        return {"t": "dc", "v": [gen_spec(ch, depth + 1), gen_spec(ch, depth + 1)]}
    return {"t": "nt", "v": [gen_spec(ch, depth + 1), gen_spec(ch, depth + 1)]}


def gen_hashable(ch: Choices, depth: int) -> dict:
    k = ch.choice(7 if depth < 3 else 3, "hkind")
    if k == 0:
        return {"t": "int", "v": ch.choice(30, "hint")}
    if k == 1:
        return {"t": "str", "v": ["a", "b", "c", "dd", "e f"][ch.choice(5, "hstr")]}
    if k == 2:
        return {"t": "none", "v": None}
    if k in (3, 4):
        return {"t": "tuple", "v": [gen_hashable(ch, depth + 1) for _ in range(ch.choice(3, "hlen"))]}
    return {"t": "frozenset", "v": [gen_hashable(ch, depth + 1) for _ in range(1 + ch.choice(3, "hlen"))]}


def has(spec, kinds, nested=False, top=True):
    if spec["t"] in kinds and (not nested or not top):
        return True
    v = spec.get("v")
    if isinstance(v, list):
        for x in v:
            if isinstance(x, dict) and has(x, kinds, nested, False):
                return True
            if isinstance(x, list):
                for y in x:
                    if isinstance(y, dict) and has(y, kinds, nested, False):
                        return True
    return False


class C16(Check):
    PROPERTY = "C16"
    RULE = (
        "batches of generated values (scalars, strings, nested list/tuple/dict/set/frozenset, "
        "dataclass, NamedTuple) are rebuilt from a spec in 3 fresh interpreter processes, each with "
        "its own PYTHONHASHSEED, its own insertion order for set / dict elements and its own order "
        "of hashing the batch (numerically equal values of different types included), and hashed "
        "with TypeRegistry.get_hash, with the hash the backend records the value under, and with "
        "hash_args_eval of calls taking the value by position, in variadic positions and by "
        "keyword; all nodes must agree on every value; a case is one value; "
        "non-trivial = the value contains a set or frozenset with >= 2 elements or a dict whose "
        "insertion order was permuted"
    )
    ASSUMPTIONS = ["the only nondeterminism is the interpreter's hash seed and element insertion "
                   "order; there is no schedule (thinnest use of the technique among the claimed "
                   "properties)"]
    COMPONENTS_REAL = ["redun.value.TypeRegistry.get_hash / ProxyValue / Set hashing in separate "
                       "/venv/bin/python processes"]
    COMPONENTS_STUB = []
    EXPECTED_PROBES = ["values_hashed", "nested_sets", "top_level_sets"]
    QUICK_SECONDS = 25.0
    BATCH = 400
    SHRINK_TESTS = 30
    SHRINK_SECONDS = 40.0

    def run_one(self, ch: Choices) -> RunOutcome:
        out = RunOutcome()
        specs = [gen_spec(ch) for _ in range(self.BATCH)]
        seeds = [ch.choice(1000, "hashseed") for _ in range(3)]
        if len(set(seeds)) < 2:
            seeds[1] = (seeds[0] + 1) % 1000
        orders = [ch.choice(10 ** 6, "order-seed") for _ in range(3)]
        results = []
        for hs, order in zip(seeds, orders):
            env = dict(os.environ)
            env["PYTHONHASHSEED"] = str(hs)
            env["PYTHONPATH"] = VERIF_DIR + (os.pathsep + env["PYTHONPATH"] if env.get("PYTHONPATH") else "")
            p = subprocess.run([sys.executable, "-m", "simkit.hashnode", str(order)],
                               input=json.dumps(specs).encode(), stdout=subprocess.PIPE,
                               stderr=subprocess.PIPE, env=env, cwd=VERIF_DIR, timeout=120)
            if p.returncode != 0:
                raise RuntimeError("hash node failed: " + p.stderr.decode()[-500:])
            results.append(json.loads(p.stdout))
        out.probe("values_hashed", len(specs))
        keys = set()
        for i, spec in enumerate(specs):
            hs_ = {r[i] for r in results}
            settish = has(spec, ("set", "frozenset"))
            nested = has(spec, ("set", "frozenset"), nested=True)
            if nested:
                out.probe("nested_sets")
            elif settish:
                out.probe("top_level_sets")
            if has(spec, ("dict",)):
                out.probe("permuted_dicts")
            if settish or has(spec, ("dict",)):
                out.nontrivial = True
                keys.add(hashlib.sha1(json.dumps(spec, sort_keys=True).encode()).hexdigest()[:12])
            if len(hs_) > 1:
                where = "nested-set" if nested else ("top-level-set" if settish else
                                                     ("dict" if has(spec, ("dict",)) else "other"))
                ftypes = sorted({t for t in ("set", "frozenset") if has(spec, (t,))})
                sig = where + ":" + "+".join(ftypes)
                if len({r[i].split("|")[0] for r in results}) == 1:
                    if len({r[i].split("|")[1] for r in results}) == 1:
                        # the nodes agree on the value's own hashes but not on the hashes of
                        # calls that take it as an argument (by position, variadic, by keyword)
                        sig += "/argument-hash-only"
                    else:
                        # the nodes agree on the hash used as cache key but not on the hash the
                        # value is recorded under
                        sig += "/recorded-hash-only"
                if sig not in {v.signature for v in out.violations}:
                    out.violate("C16.nodes_agree", sig,
                                {"value_spec": spec, "hashseeds": seeds,
                                 "hashes": [[h[:10] for h in r[i].split("|")] for r in results]})
                out.probe("values_disagreeing")
        out.steps = len(specs)
        out.key = hashlib.sha1(json.dumps(specs, sort_keys=True).encode()).hexdigest()[:16]
        out.digest = hashlib.sha1(json.dumps(results[0]).encode()).hexdigest()[:16]
        out.extra["interpreter_processes"] = 3
        out.sample = {"hashseeds": seeds, "values": specs[:3]}
        return out


CHECK = C16
