"""C32 The remote job protocol reproduces local execution (engine E: scheduler node + worker nodes)."""

from __future__ import annotations

import hashlib
import importlib
import logging
import os
import shutil
import sys
import types

from simkit import schedsim
from simkit.choices import Choices
from simkit.progs import RegistrySnapshot
from simkit.refinterp import vkey
from simkit.runner import Check, RunOutcome

MODULE = '''\
from redun import task
from simkit.proglib import mix, P, D


class Unpicklable(Exception):
    def __init__(self, msg):
        super().__init__(msg)
        self.handle = lambda: None  # makes the exception unpicklable


@task(namespace="c32")
def add(a, b=3):
    return mix("add", a, b)


@task(namespace="c32")
def echo(x, *rest, **kw):
    return [x, list(rest), dict(sorted(kw.items()))]


@task(namespace="c32")
def boom(x):
    raise ValueError("boom-%s" % (x,))


@task(namespace="c32")
def boom_unpicklable(x):
    raise Unpicklable("bad-%s" % (x,))


@task(namespace="c32")
def shaped(x):
    return {"p": P(x, [x, x]), "d": D(x, (x,)), "s": {1, 2}, "n": None}


# tasks of another team: same short names, other namespace, other behaviour
@task(name="add", namespace="c32b")
def add_b(a, b=3):
    return mix("add-b", b, a)


@task(name="echo", namespace="c32b")
def echo_b(x, *rest, **kw):
    return [list(rest), x]
'''


class FakeJob:
    def __init__(self, task, args, kwargs, eval_hash, options=None):
        self.task = task
        self.args = (args, kwargs)
        self.eval_hash = eval_hash
        self.id = "job-" + eval_hash
        self.options = dict(options or {})

    def get_options(self):
        return dict(self.options)


def gen_arg(ch: Choices):
    k = ch.choice(7, "arg-kind")
    if k == 0:
        return ch.choice(5, "int")
    if k == 1:
        return ["", "a", "b c"][ch.choice(3, "str")]
    if k == 2:
        return None
    if k == 3:
        return [ch.choice(3, "l"), "x"]
    if k == 4:
        return {"k": ch.choice(3, "d")}
    if k == 5:
        return (ch.choice(3, "t"), (1, 2))
    return 1.5


class C32(Check):
    PROPERTY = "C32"
    RULE = (
        "a 'scheduler node' prepares generated jobs (tasks with positional / keyword / default / "
        "variadic arguments, raising tasks, a task raising an unpicklable error) for remote "
        "execution in single form (get_oneshot_command writes the pickled input) and in array "
        "form (write_array_job_scratch_files; in one mode the arrays are the groups the real "
        "JobArrayer forms from interleaved jobs of several tasks, two pairs of which share their "
        "short name across namespaces, and option sets); 'worker nodes' run the real "
        "RedunClient.oneshot_command in-process with the array index environment variable, in a "
        "simulator-chosen order, some of them twice (retry) and some after a stale output or "
        "error file of another attempt exists; results are read back with parse_job_result / "
        "parse_job_error and compared with calling the task locally; job reuniting is checked with "
        "generated job names, prefixes and hashes, and with a fake 'jobs in flight' listing "
        "(single jobs, partially finished arrays listed in shuffled order, foreign jobs, a lost "
        "eval-hash file) fed to the real AWSBatchExecutor.gather_inflight_jobs; a case is (job set, element order, retries); "
        "non-trivial = an array with >= 2 elements ran out of order or an element ran twice"
    )
    ASSUMPTIONS = ["worker nodes run in-process (no container); scratch is a local tmpfs directory"]
    COMPONENTS_REAL = ["redun.executors.scratch (write_array_job_scratch_files, parse_job_result, "
                       "parse_job_error)", "redun.executors.command.get_oneshot_command",
                       "redun.cli.RedunClient.oneshot_command", "redun.job_array.get_job_array_index",
                       "aws_batch.get_batch_job_name / get_hash_from_job_name / is_array_job_name",
                       "AWSBatchExecutor.gather_inflight_jobs"]
    COMPONENTS_STUB = ["Job objects: minimal fakes", "the remote service itself (no Batch / K8S)"]
    EXPECTED_PROBES = ["array_elements_run", "single_jobs_run", "retries", "errors_round_tripped",
                       "job_names_checked", "reunited_jobs", "arrays_formed_by_arrayer",
                       "arrays_beside_same_named_task"]
    QUICK_SECONDS = 25.0

    def setup(self) -> None:
        logging.disable(logging.CRITICAL)
        self.dir = os.path.join(schedsim.scratch_dir(), "c32")
        shutil.rmtree(self.dir, ignore_errors=True)
        os.makedirs(self.dir)
        with open(os.path.join(self.dir, "c32mod.py"), "w") as f:
            f.write(MODULE)
        sys.path.insert(0, self.dir)
        self.mod = importlib.import_module("c32mod")

    def run_one(self, ch: Choices) -> RunOutcome:
        from redun.cli import RedunClient
        from redun.executors.aws_batch import (get_batch_job_name, get_hash_from_job_name,
                                               is_array_job_name)
        from redun.executors.command import get_oneshot_command
        from redun.executors.scratch import (parse_job_error, parse_job_result,
                                             write_array_job_scratch_files)

        out = RunOutcome()
        scratch = os.path.join(self.dir, "scratch")
        shutil.rmtree(scratch, ignore_errors=True)
        os.makedirs(scratch)
        tasks = [self.mod.add, self.mod.echo, self.mod.boom, self.mod.boom_unpicklable,
                 self.mod.shaped]
        log = []

        def make_job(i):
            t = tasks[ch.choice(len(tasks), "task")]
            if t is self.mod.add:
                args, kwargs = (gen_arg(ch),), ({"b": gen_arg(ch)} if ch.coin(0.5, "kw") else {})
            elif t is self.mod.echo:
                args = tuple(gen_arg(ch) for _ in range(1 + ch.choice(3, "nrest")))
                kwargs = {"k": gen_arg(ch)} if ch.coin(0.4, "kw") else {}
            else:
                args, kwargs = (gen_arg(ch),), {}
            return FakeJob(t, args, kwargs, f"h{i:03d}{ch.choice(1000, 'hash'):03d}")

        def local(job):
            try:
                return ("v", vkey(job.task.func(*job.args[0], **job.args[1])))
            except Exception as e:
                return ("e", type(e).__name__, str(e))

        def run_worker(cmd, env_index=None):
            """One worker node: the real oneshot entry point, in-process."""
            argv = [c for c in cmd if c not in ("--check-version",)]
            # drop the version requirement argument that follows --check-version
            argv = []
            skip = False
            for c in cmd:
                if skip:
                    skip = False
                    continue
                if c == "--check-version":
                    skip = True
                    continue
                argv.append(c)
            old_env = os.environ.get("AWS_BATCH_JOB_ARRAY_INDEX")
            if env_index is not None:
                os.environ["AWS_BATCH_JOB_ARRAY_INDEX"] = str(env_index)
            cwd = os.getcwd()
            os.chdir(self.dir)
            # a worker node is a separate process: what it adds to its import paths must not
            # leak into the scheduler node (which turns them into --import-path arguments)
            import redun.utils as ru

            saved_sys_path = list(sys.path)
            saved_import_paths = list(ru._redun_import_paths)
            try:
                with RegistrySnapshot():
                    try:
                        RedunClient().execute(argv)
                    except SystemExit:
                        pass
                    except Exception:
                        pass  # the worker process would exit non-zero; the error file tells
            finally:
                os.chdir(cwd)
                sys.path[:] = saved_sys_path
                ru._redun_import_paths[:] = saved_import_paths
                if env_index is not None:
                    if old_env is None:
                        os.environ.pop("AWS_BATCH_JOB_ARRAY_INDEX", None)
                    else:
                        os.environ["AWS_BATCH_JOB_ARRAY_INDEX"] = old_env

        def read_back(job):
            res, exists = parse_job_result(scratch, job)
            if exists:
                return ("v", vkey(res))
            err, tb = parse_job_error(scratch, job)
            return ("e", type(err).__name__, str(err))

        def compare(job, where):
            want, got = local(job), read_back(job)
            if want[0] == "e" and want[1] == "Unpicklable":
                # documented fallback: recorded as a generic Exception carrying the repr
                ok = got[0] == "e" and got[1] == "Exception" and "bad-" in got[2]
            else:
                ok = want == got
            if want[0] == "e":
                out.probe("errors_round_tripped")
            if not ok:
                kind = "value" if want[0] == "v" else "error"
                out.violate("C32.equals_local_call", f"{where}:{kind}",
                            {"task": job.task.fullname, "args": repr(job.args)[:200],
                             "local": repr(want)[:200], "remote": repr(got)[:200], "log": log[-12:]})
                return False
            return True

        mode = ch.choice(5, "mode")
        if mode == 0:
            # ---- single jobs -------------------------------------------------------
            jobs = [make_job(i) for i in range(1 + ch.choice(3, "njobs"))]
            for job in jobs:
                cmd = get_oneshot_command(scratch, job, job.task, args=job.args[0], kwargs=job.args[1])
                run_worker(cmd)
                log.append(("single", job.eval_hash))
                out.probe("single_jobs_run")
                if ch.coin(0.3, "retry"):
                    run_worker(cmd)
                    out.probe("retries")
                    out.nontrivial = True
                    log.append(("retry", job.eval_hash))
                if not compare(job, "single"):
                    break
        elif mode == 1:
            # ---- array job --------------------------------------------------------------
            n = 2 + ch.choice(4, "array-n")
            jobs = [make_job(i) for i in range(n)]
            # elements must share the task (arrays are homogeneous)
            t = jobs[0].task
            jobs = [j if j.task is t else FakeJob(t, jobs[0].args[0], jobs[0].args[1], j.eval_hash)
                    for j in jobs]
            array_uuid = f"arr{ch.choice(1000, 'uuid')}"
            write_array_job_scratch_files(jobs, scratch, array_uuid, include_eval_hash=True)
            cmd = get_oneshot_command(scratch, jobs[0], t, array_uuid=array_uuid)
            order = ch.shuffle(list(range(n)), "element-order")
            if order != sorted(order):
                out.nontrivial = True
            ran = []
            for i in order:
                run_worker(cmd, env_index=i)
                ran.append(i)
                out.probe("array_elements_run")
                log.append(("element", i))
                if ch.coin(0.25, "retry"):
                    run_worker(cmd, env_index=i)
                    out.probe("retries")
                    out.nontrivial = True
                    log.append(("retry-element", i))
                # element i wrote output i only: every element that has not run has no files
                for j, job in enumerate(jobs):
                    if j in ran:
                        continue
                    d = os.path.join(scratch, "jobs", job.eval_hash)
                    if os.path.isdir(d) and os.listdir(d):
                        out.violate("C32.element_isolation", "wrote-foreign-output",
                                    {"ran": ran, "foreign": j, "files": os.listdir(d), "log": log[-10:]})
            for job in jobs:
                if not compare(job, "array"):
                    break
        elif mode == 4:
            # ---- arrays as the real JobArrayer forms them: jobs of several tasks (two pairs
            # share their short name across namespaces) and option sets arrive interleaved; the
            # arrayer is flushed at seeded points; every group it hands over is submitted the way
            # the executors do (one command built from the group's first job) ------------------
            from redun.job_array import JobArrayer

            groups: list = []
            errors: list = []
            arrayer = JobArrayer(submit_jobs=lambda js: groups.append(list(js)),
                                 on_error=errors.append, submit_interval=3600.0, stale_time=-1.0,
                                 min_array_size=2, max_array_size=2 + ch.choice(4, "max-array"))
            arrayer.start = lambda: None  # (the simulator plays the monitor thread)

            def flush():
                for d in arrayer.get_stale_descrs():
                    arrayer.submit_pending_jobs(d)

            twins = [self.mod.add, self.mod.add_b, self.mod.echo, self.mod.echo_b]
            n = 3 + ch.choice(6, "njobs")
            jobs = []
            for i in range(n):
                job = make_job(i)
                if ch.coin(0.7, "twin-task"):
                    t = twins[ch.choice(4, "which-twin")]
                    job = FakeJob(t, (gen_arg(ch), gen_arg(ch)), {}, job.eval_hash)
                if ch.coin(0.3, "with-options"):
                    job.options = {"memory": 1 + ch.choice(2, "memory")}
                jobs.append(job)
                arrayer.add_job(job)
                if ch.coin(0.2, "flush"):
                    flush()
            while arrayer.num_pending and len(groups) < 50:
                flush()
            placed = sorted(j.eval_hash for g in groups for j in g)
            if placed != sorted(j.eval_hash for j in jobs) or errors:
                out.violate("C32.arrayer_conserves_jobs", "lost-or-duplicated" if not errors else "error",
                            {"jobs": len(jobs), "placed": len(placed), "errors": repr(errors)[:200]})
            for gi, group in enumerate(groups):
                if len(group) == 1:
                    job = group[0]
                    run_worker(get_oneshot_command(scratch, job, job.task, args=job.args[0],
                                                   kwargs=job.args[1]))
                    out.probe("single_jobs_run")
                    log.append(("arrayer-single", job.task.fullname))
                else:
                    array_uuid = f"grp{gi}x{ch.choice(1000, 'uuid')}"
                    write_array_job_scratch_files(group, scratch, array_uuid, include_eval_hash=True)
                    cmd = get_oneshot_command(scratch, group[0], group[0].task, array_uuid=array_uuid)
                    for i in ch.shuffle(list(range(len(group))), "element-order"):
                        run_worker(cmd, env_index=i)
                        out.probe("array_elements_run")
                    out.probe("arrays_formed_by_arrayer")
                    out.nontrivial = True
                    if len({j.task.name for j in group}) == 1 and \
                            len({j.task.fullname for j in jobs if j.task.name == group[0].task.name}) > 1:
                        out.probe("arrays_beside_same_named_task")
                    log.append(("arrayer-array", [j.task.fullname for j in group]))
                if not all(compare(job, "arrayer") for job in group):
                    break
        elif mode == 3:
            # ---- reuniting with in-flight jobs: the restarted scheduler node lists what the
            # service still runs and must map every in-flight element back to its eval hash ------
            self.reunite(ch, out, scratch, make_job, log)
        else:
            # ---- job names / reuniting ------------------------------------------------------
            for _ in range(6):
                prefix = ["redun-job", "my-prefix", "a-b-c", "x"][ch.choice(4, "prefix")]
                h = hashlib.sha1(str(ch.choice(10 ** 6, "h")).encode()).hexdigest()[: 8 + ch.choice(33, "hlen")]
                arr = bool(ch.choice(2, "array"))
                name = get_batch_job_name(prefix, h, array=arr)
                out.probe("job_names_checked")
                if is_array_job_name(name) != arr:
                    out.violate("C32.job_names", "array-flag", {"name": name, "array": arr})
                back = get_hash_from_job_name(name)
                if back != h:
                    out.violate("C32.job_names", "hash-not-recovered",
                                {"name": name, "hash": h, "recovered": back})
            out.nontrivial = True
        out.steps = len(log)
        out.key = hashlib.sha1(repr(log).encode()).hexdigest()[:16] + str(mode)
        out.digest = out.key
        out.sample = {"mode": ["single", "array", "names", "reunite", "arrayer"][mode], "log": log[:12]}
        return out

    def reunite(self, ch: Choices, out: RunOutcome, scratch: str, make_job, log: list) -> None:
        """A previous scheduler submitted single and array jobs and died; the listing API (fake)
        shows a simulator-chosen subset still in flight (array elements individually); the real
        AWSBatchExecutor.gather_inflight_jobs must reunite exactly those, each under its own
        eval hash."""
        import types

        import redun.executors.aws_batch as m
        from redun.config import Config
        from redun.executors.aws_batch import get_batch_job_name
        from redun.executors.scratch import write_array_job_scratch_files

        prefix = ["redun-job", "my-prefix", "a-b", "x"][ch.choice(4, "prefix")]
        listing = []          # what get_jobs(inflight) returns
        children = {}         # array job id -> in-flight children
        want = {}             # eval hash -> service job id
        universe = set()      # every evaluation hash the previous scheduler submitted
        nid = [0]

        def new_id():
            nid[0] += 1
            return f"svc-{nid[0]:03d}"

        for i in range(ch.choice(4, "n-single")):
            job = make_job(i)
            universe.add(job.eval_hash)
            jid = new_id()
            if ch.coin(0.7, "single-inflight"):
                listing.append({"jobId": jid, "jobName": get_batch_job_name(prefix, job.eval_hash)})
                want[job.eval_hash] = jid
            log.append(("single", job.eval_hash))
        for a in range(ch.choice(3, "n-arrays")):
            n = 2 + ch.choice(4, "array-n")
            jobs = [make_job(100 * (a + 1) + i) for i in range(n)]
            universe.update(j.eval_hash for j in jobs)
            array_uuid = hashlib.sha1(f"arr{a}-{ch.choice(1000, 'uuid')}".encode()).hexdigest()[:32]
            lost_file = ch.coin(0.15, "hash-file-lost")
            if not lost_file:
                write_array_job_scratch_files(jobs, scratch, array_uuid, include_eval_hash=True)
            ajid = new_id()
            kids = []
            for i in ch.shuffle(list(range(n)), "child-order"):
                if ch.coin(0.6, "child-inflight"):
                    cid = f"{ajid}:{i}"
                    kids.append({"jobId": cid, "arrayProperties": {"index": i}})
                    if not lost_file:
                        want[jobs[i].eval_hash] = cid
            if kids or ch.coin(0.5, "list-empty-array"):
                listing.append({"jobId": ajid,
                                "jobName": get_batch_job_name(prefix, array_uuid, array=True)})
                children[ajid] = kids
            log.append(("array", n, sorted(k["arrayProperties"]["index"] for k in kids), lost_file))
            if len(kids) not in (0, n):
                out.nontrivial = True
        # foreign jobs in the same queue (not redun's): must be ignored, never crash the restart
        for _ in range(ch.choice(3, "n-foreign")):
            listing.append({"jobId": new_id(),
                            "jobName": ["other-team-job", "redun", "x-array"][ch.choice(3, "fname")]})
        listing = ch.shuffle(listing, "listing-order")
        saved = m.aws_utils
        m.aws_utils = types.SimpleNamespace(
            get_aws_user=lambda *a, **k: "user", get_default_region=lambda: "us-west-2",
            get_aws_client=lambda *a, **k: None)
        try:
            cfg = Config({"ex": {"image": "img", "queue": "q", "s3_scratch": scratch,
                                 "code_package": "False", "default_batch_tags": "False",
                                 "aws_region": "us-west-2"}})
            ex = m.AWSBatchExecutor("ex", scheduler=None, config=cfg["ex"])
            ex.get_jobs = lambda statuses=None: iter(listing)
            ex.get_array_child_jobs = lambda job_id, statuses=None: list(children.get(job_id, []))
            try:
                ex.gather_inflight_jobs()
                got = dict(ex.preexisting_batch_jobs)
            except Exception as e:
                out.violate("C32.reunite", f"raises-{type(e).__name__}",
                            {"error": repr(e)[:200], "listing": listing[:8], "log": log[-8:]})
                return
        finally:
            m.aws_utils = saved
        out.probe("reunited_jobs", len(want))
        # "only pairs a job with an in-flight remote job created for the same evaluation hash":
        # a pairing for one of our evaluation hashes must be the in-flight job made for it; entries
        # under keys that are no evaluation hash of ours (foreign jobs) can never be looked up
        wrong = sorted(h for h in want if h in got and got[h] != want[h])
        not_inflight = sorted(h for h in universe if h in got and h not in want)
        out.probe("reunite_missing", len(set(want) - set(got)))
        if wrong or not_inflight:
            out.violate("C32.reunite", "wrong-job" if wrong else "paired-with-job-not-in-flight",
                        {"wrong": [(h, got[h], want[h]) for h in wrong[:4]],
                         "not_inflight": [(h, got[h]) for h in not_inflight[:4]], "log": log[-8:]})


CHECK = C32
