"""C25 Handle lineage and rollback follow the state model (engine D, model-based)."""

from __future__ import annotations

import hashlib
import logging

from simkit import schedsim
from simkit.choices import Choices
from simkit.runner import Check, RunOutcome


class C25(Check):
    PROPERTY = "C25"
    USES_TEMPLATE_DB = True
    RULE = (
        "seeded histories of <= 20 operations on 1-2 handle names, shaped like the scheduler's own "
        "use (fork on the way into a task, apply_call on the way out, merge_handles, rollback "
        "before re-execution) against RedunBackendDb.advance_handle / rollback_handle / "
        "is_valid_handle on SQLite and a lineage model (DAG + valid set); validity of every known "
        "state is compared after every operation; well-formed histories derive only from states "
        "the model holds valid (all the scheduler ever does), extended histories also derive from "
        "rolled-back states and are judged by a separate sub-oracle; a case is an operation "
        "history; non-trivial = it contains a rollback that invalidates something and a later "
        "re-derivation. One case in four is a workflow-level history instead: a small DAG of 2-5 "
        "handle-writing tasks (some joining two branches; plus consumers) run 2-6 times on one backend under seeded "
        "schedules while the versions of the handle-writing tasks are edited and reverted; a task "
        "whose cached result holds a handle state that the lineage model says was rolled back "
        "must execute again"
    )
    ASSUMPTIONS = ["call hashes of derived states are a function of the parent state, as in the "
                   "scheduler (the call hash covers the incoming handle)"]
    COMPONENTS_REAL = ["RedunBackendDb.advance_handle / rollback_handle / is_valid_handle",
                       "redun.handle.Handle fork / apply_call",
                       "Scheduler + LocalExecutor + backend (workflow-level part)"]
    COMPONENTS_STUB = ["no scheduler: operations are issued directly in the order a workflow would"]
    EXPECTED_PROBES = ["rollbacks_invalidating", "rederivations", "merges", "extended_histories",
                       "workflow_histories", "reexecuted_because_state_was_rolled_back"]
    QUICK_SECONDS = 35.0

    def setup(self) -> None:
        logging.disable(logging.CRITICAL)
        schedsim.template_db()

    def run_one(self, ch: Choices) -> RunOutcome:
        from simkit.proghandle import VH

        if ch.choice(4, "part") == 3:
            return self.run_workflow(ch)
        out = RunOutcome()
        extended = ch.choice(4, "extended") == 3
        if extended:
            out.probe("extended_histories")
        db = schedsim.fresh_db("handles.db")
        backend = schedsim.open_backend(db)
        names = ["ha", "hb"][: 1 + ch.choice(2, "nnames")]
        states: dict[str, object] = {}  # hash -> handle object
        valid: dict[str, bool] = {}  # model: recorded states -> valid?
        edges: dict[str, set] = {}
        name_of: dict[str, str] = {}
        roots = []
        for n in names:
            h = VH(n)
            roots.append(h)
            states[h.get_hash()] = h
            name_of[h.get_hash()] = n
        ops = []
        nops = 2 + ch.choice(19, "nops")
        invalidated_once: set = set()
        derived_from_invalid = False

        def model_advance(parents, child):
            for p in parents:
                if p not in valid:
                    valid[p] = True  # a never-recorded (root) state is recorded as valid
                edges.setdefault(p, set()).add(child)
            if child in invalidated_once and not valid.get(child, False):
                out.probe("rederivations")
            valid[child] = True

        def model_rollback(h):
            seen = set()
            stack = list(edges.get(h, ()))
            while stack:
                x = stack.pop()
                if x in seen:
                    continue
                seen.add(x)
                if valid.get(x):
                    invalidated_once.add(x)
                    out.probe("rollbacks_invalidating")
                valid[x] = False
                stack.extend(edges.get(x, ()))

        try:
            for step in range(nops):
                k = ch.choice(6, "op")
                pool = sorted(states)
                if not extended:
                    # derive only from valid or never-recorded states
                    pool_src = [h for h in pool if valid.get(h, True)]
                else:
                    pool_src = pool
                if k <= 2 and pool_src:
                    src = pool_src[ch.choice(len(pool_src), "src")]
                    h = states[src]
                    if src in valid and not valid[src]:
                        derived_from_invalid = True
                    if k == 0:
                        key = str(1 + ch.choice(2, "fork-key"))
                        child = h.fork(key)
                        op = ("fork", src[:6], key)
                    else:
                        tag = ["load", "step"][ch.choice(2, "call-tag")]
                        call_hash = hashlib.sha1(f"{src}:{tag}".encode()).hexdigest()
                        child = h.apply_call(call_hash)
                        op = ("call", src[:6], tag)
                    ch_hash = child.get_hash()
                    states.setdefault(ch_hash, child)
                    name_of[ch_hash] = name_of[src]
                    backend.advance_handle([h], child)
                    model_advance([src], ch_hash)
                elif k == 3 and len(pool_src) >= 2:
                    a = pool_src[ch.choice(len(pool_src), "merge-a")]
                    same = [x for x in pool_src if x != a and name_of[x] == name_of[a]]
                    if not same:
                        continue
                    b = same[ch.choice(len(same), "merge-b")]
                    if self.reaches(edges, a, b):
                        continue  # keep the lineage a DAG
                    if any(x in valid and not valid[x] for x in (a, b)):
                        derived_from_invalid = True
                    op = ("merge", b[:6], "->", a[:6])
                    out.probe("merges")
                    backend.advance_handle([states[b]], states[a])
                    model_advance([b], a)
                elif k == 4 and pool:
                    tgt = pool[ch.choice(len(pool), "rollback")]
                    op = ("rollback", tgt[:6])
                    backend.rollback_handle(states[tgt])
                    backend.session.commit()
                    model_rollback(tgt)
                else:
                    op = ("check",)
                ops.append(op)
                bad = []
                for hsh, h in sorted(states.items()):
                    real = bool(backend.is_valid_handle(h))
                    want = bool(valid.get(hsh, False))
                    if real != want:
                        bad.append((hsh[:6], real, want))
                if bad:
                    oracle = "C25.extended" if extended else "C25.validity_equals_model"
                    kinds = "valid-in-redun-only" if bad[0][1] else "valid-in-model-only"
                    sig = ("after-deriving-from-rolled-back-state" if derived_from_invalid
                           else f"{op[0]}/{kinds}")
                    out.violate(oracle, sig, {"ops": ops, "differs": bad[:5]})
                    break
        finally:
            schedsim.close_backend(backend)
        out.steps = len(ops)
        out.key = hashlib.sha256(repr(ops).encode()).hexdigest()[:20]
        out.digest = out.key
        out.nontrivial = bool(out.probes.get("rollbacks_invalidating")) and bool(
            out.probes.get("rederivations"))
        out.sample = {"ops": ops, "extended": extended,
                      "model": {h[:6]: v for h, v in sorted(valid.items())}}
        return out


    # ------------------------------------------------------------------------------------------
    # Workflow-level part: "a cached result containing an invalidated handle state is never
    # replayed" -- histories that edit and revert handle-writing tasks of a chain.
    # ------------------------------------------------------------------------------------------

    def run_workflow(self, ch: Choices) -> RunOutcome:
        from simkit import enginea, proglib
        from simkit.progs import HEADER, RawProgram

        out = RunOutcome()
        out.probe("workflow_histories")
        # A small DAG of handle-writing steps over one handle name: step k takes one or two
        # earlier states (two = an ordinary task joining two branches) and returns one of them.
        n = 2 + ch.choice(4, "nsteps")
        steps = []          # (inputs: list of state indices (0 = the initial handle), ret)
        for k in range(1, n + 1):
            ins = [ch.choice(k, "input")]
            if k >= 2 and ch.coin(0.35, "join"):
                other = ch.choice(k, "input2")
                if other != ins[0]:
                    ins.append(other)
                    out.probe("join_steps")
            steps.append((ins, ch.choice(len(ins), "returns")))
        consumers = [k for k in range(1, n + 1) if ch.coin(0.4, "consumer?")]
        # only what the returned value needs is ever evaluated
        needed: set = set()
        todo = [n] + consumers
        while todo:
            k = todo.pop()
            if k == 0 or k in needed:
                continue
            needed.add(k)
            todo.extend(steps[k - 1][0])

        def source(vers: list) -> str:
            L = [HEADER.format(ns="vp"), "from simkit.proghandle import VH\n\n"]
            for k, (ins, ret) in enumerate(steps, 1):
                params = ", ".join(f"h{j}" for j in range(len(ins)))
                L.append(f"@task(version='s{k}-v{vers[k - 1]}')\ndef s{k}({params}, x):\n"
                         f"    hit('s{k}')\n    return h{ret}\n\n")
            L.append("@task(version='use')\ndef use(h, k):\n    hit('use', k)\n"
                     "    return mix('use', k)\n\n")
            body = ["    g0 = VH('ha')"]
            for k, (ins, ret) in enumerate(steps, 1):
                body.append(f"    g{k} = s{k}({', '.join('g%d' % i for i in ins)}, {k})")
            items = [f"g{n}"] + [f"use(g{k}, {k})" for k in consumers]
            body.append(f"    return [{', '.join(items)}]")
            L.append("@task(version='main')\ndef t0():\n" + "\n".join(body) + "\n")
            return "".join(L)

        # ---- lineage model -----------------------------------------------------------------
        # state ids are nested tuples; a fork of state s by its c-th consumer is ("fork", s, c);
        # the state a step writes is ("call", step, version, fork ids, ret)
        valid: set = set()
        cached: set = set()

        def ancestors(st):
            while st is not None and st != ("root",):
                st = st[1] if st[0] == "fork" else st[3][st[4]]
                yield st

        vers = [0] * n
        prog = RawProgram(source(vers))
        db = schedsim.fresh_db("handles-wf.db")
        history = []
        nexec = 2 + ch.choice(5, "nexec")
        w = None
        with enginea.ProgramSession(prog) as sess:
            for ex in range(nexec):
                desc = "initial"
                if ex > 0:
                    k = ch.choice(n, "edit-which")
                    v = ch.choice(3, "edit-version")
                    desc = f"s{k + 1}: v{vers[k]} -> v{v}"
                    if v != vers[k]:
                        out.probe("handle_task_edits")
                    vers[k] = v
                    prog = RawProgram(source(vers))
                    sess.reload(prog)
                proglib.reset_hits()
                res = enginea.simulate(ch, prog, db_path=db, session=sess)
                w = res.world
                out.steps += w.steps
                out.digest = (out.digest + w.digest())[-48:]
                if res.outcome[0] != "v":
                    out.violate("C25.workflow_runs", f"{res.outcome[0]}",
                                {"history": history, "error": repr(res.outcome[1])[:200]})
                    break
                ran = {name for (name, _a) in proglib.HITS}
                state = {0: ("root",)}
                uses: dict = {}
                must = []
                for k, (ins, ret) in enumerate(steps, 1):
                    if k not in needed:
                        continue
                    forks = []
                    for i in ins:
                        uses[i] = uses.get(i, 0) + 1
                        forks.append(("fork", state[i], uses[i]))
                    key = ("call", k, vers[k - 1], tuple(forks), ret)
                    state[k] = key
                    executed = f"s{k}" in ran
                    if not (key in cached and key in valid):
                        must.append(k)
                    if executed:
                        # each incoming fork is rolled back (everything derived through it so
                        # far), then the new state is derived
                        for f in forks:
                            for st in list(valid):
                                if f in ancestors(st):
                                    valid.discard(st)
                                    out.probe("states_rolled_back")
                        valid.add(key)
                        cached.add(key)
                history.append({"execution": ex, "edit": desc, "versions": list(vers),
                                "executed": sorted(x for x in ran if x.startswith("s")),
                                "model_must_execute": [f"s{k}" for k in must]})
                stale = [k for k in must if f"s{k}" not in ran]
                if stale:
                    k0 = stale[0]
                    out.violate("C25.invalid_state_never_replayed",
                                "replayed-rolled-back-state" if state[k0] in cached
                                else "replayed-unknown-state",
                                {"history": history, "task": f"s{k0}",
                                 "steps": [(k, ins, ret) for k, (ins, ret) in enumerate(steps, 1)]})
                    break
                if any(state[k] in cached for k in must):
                    out.probe("reexecuted_because_state_was_rolled_back")
                    out.nontrivial = True
        out.key = hashlib.sha256(repr((steps, history)).encode()).hexdigest()[:20]
        out.sample = {"part": "workflow", "steps": [(k, ins, ret) for k, (ins, ret) in
                                                      enumerate(steps, 1)],
                      "consumers": consumers, "history": history}
        return out

    @staticmethod
    def reaches(edges: dict, src: str, dst: str) -> bool:
        seen, stack = set(), [src]
        while stack:
            x = stack.pop()
            if x == dst:
                return True
            if x in seen:
                continue
            seen.add(x)
            stack.extend(edges.get(x, ()))
        return False


CHECK = C25
