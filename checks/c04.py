"""C04 Cached results with external values are replayed only while still valid (engine B)."""

from __future__ import annotations

import hashlib
import os
import shutil

from simkit import enginea, proglib, refinterp, schedsim
from simkit.acheck import EngineACheck
from simkit.choices import Choices
from simkit.progs import HEADER, RawProgram
from simkit.runner import RunOutcome

CLASSES = ["File", "ContentFile", "IFile", "Dir", "FileSet", "ContentDir", "IDir"]
IMMUTABLE = {"IFile", "IDir"}


def gen_program(ch: Choices, root: str):
    """Tasks that write and return external values (bare or nested), and tasks consuming them."""
    L = [HEADER.format(ns="vp"),
         "import os\nfrom redun.file import File, ContentFile, IFile, Dir, FileSet, ContentDir, IDir\n"
         "from simkit.proglib import stamp\n\n"]
    n = 1 + ch.choice(3, "nfiles")
    specs = []
    for i in range(n):
        klass = CLASSES[ch.choice(len(CLASSES), "class")]
        nest = ch.choice(3, "nest")  # 0 bare, 1 in list, 2 in dict
        shallow = bool(ch.choice(2, "shallow"))
        # some outputs are zero-byte marker files ("done" flags): an empty file and a missing
        # file must still be told apart
        empty = ch.choice(4, "empty-output") == 3
        # some outputs are several KiB long (content hashes must cover all of it)
        pad = "" if empty or ch.choice(3, "big-output") else " + '.' * 3000"
        path = os.path.join(root, f"out{i}")
        specs.append({"i": i, "klass": klass, "nest": nest, "path": path, "shallow": shallow,
                      "empty": empty})
        opt = "check_valid='shallow'" if shallow else ""
        if klass in ("File", "ContentFile", "IFile"):
            body = (f"    f = {klass}({path + '.txt'!r})\n"
                    + (f"    f.write('')\n" if empty else f"    f.write('content-{i}-%s' % x{pad})\n") +
                    f"    stamp(f)\n")
            val = "f"
        elif klass in ("Dir", "ContentDir", "IDir"):
            # (some directories keep one member in a subdirectory)
            nested = ch.coin(0.5, "nested-member")
            member = ("os.path.join(d.path, 'sub', 'm%d.txt' % k) if k else os.path.join(d.path, 'm0.txt')"
                      if nested else "os.path.join(d.path, 'm%d.txt' % k)")
            body = (f"    d = {klass}({path + '_dir'!r})\n"
                    f"    d.mkdir()\n"
                    + (f"    os.makedirs(os.path.join(d.path, 'sub'), exist_ok=True)\n" if nested else "") +
                    f"    for k in range(2):\n"
                    f"        m = File({member})\n"
                    + (f"        m.write('')\n" if empty else
                       f"        m.write('content-{i}-%s-%d' % (x, k){pad})\n") +
                    f"        stamp(m)\n"
                    f"    d.update_hash()\n")
            val = "d"
        else:
            body = (f"    os.makedirs({path + '_set'!r}, exist_ok=True)\n"
                    f"    for k in range(2):\n"
                    f"        m = File(os.path.join({path + '_set'!r}, 'm%d.txt' % k))\n"
                    + (f"        m.write('')\n" if empty else
                       f"        m.write('content-{i}-%s-%d' % (x, k){pad})\n") +
                    f"        stamp(m)\n"
                    f"    d = FileSet(os.path.join({path + '_set'!r}, '*.txt'))\n"
                    f"    d.update_hash()\n")
            val = "d"
        ret = [val, f"[{val}, x]", f"{{'v': {val}, 'x': x}}"][nest]
        # the external value may also leave the task inside the *expression* it returns (handed
        # on to a consumer positionally or by keyword): the cached result is then that expression
        via = ch.choice(4, "via-expression")
        if shallow:
            # (with shallow validity the replayed result is the consumer's final value, which holds
            # no external value; intermediate values are documented to be skipped)
            via = 0
        if via == 2:
            ret = f"usev{i}({ret}, 1)"
        elif via == 3:
            ret = f"usev{i}(1, v={ret})"
        specs[-1]["via"] = via >= 2
        if via >= 2:
            L.append(f"@task()\ndef usev{i}(a, v=None):\n    hit('usev{i}')\n"
                     f"    return mix('usev{i}', repr(type(v if v is not None else a).__name__))\n\n")
        L.append(f"@task({opt})\ndef mk{i}(x):\n    hit('mk{i}', x)\n{body}    return {ret}\n\n")
        L.append(f"@task()\ndef use{i}(v):\n    hit('use{i}')\n    return mix('use{i}', repr(type(v).__name__))\n\n")
    for s in specs:
        s["arg"] = ch.choice(2, "arg")
    calls = ", ".join(f"mk{s['i']}({s['arg']})" for s in specs)
    uses = ", ".join(f"use{s['i']}(mk{s['i']}({s['arg']}))" for s in specs if ch.coin(0.5, "use?"))
    main_opt = "check_valid='shallow'" if ch.coin(0.3, "main-shallow") else ""
    if any(sp.get("via") for sp in specs):
        main_opt = ""  # (a shallow ancestor would skip the intermediate values, see above)
    L.append(f"@task({main_opt})\ndef t0():\n    return [[{calls}], [{uses}]]\n")
    return RawProgram("".join(L)), specs, calls


def paths_of(spec) -> list[str]:
    k = spec["klass"]
    if k in ("File", "ContentFile", "IFile"):
        return [spec["path"] + ".txt"]
    base = spec["path"] + ("_dir" if k in ("Dir", "ContentDir", "IDir") else "_set")
    if not os.path.isdir(base):
        return []
    return sorted(os.path.join(r, f) for r, _dirs, files in os.walk(base) for f in files)


def snapshot(spec) -> tuple:
    out = []
    for p in paths_of(spec):
        try:
            st = os.stat(p)
            with open(p, "rb") as f:
                dig = hashlib.sha1(f.read()).hexdigest()
            out.append((p, st.st_size, st.st_mtime, dig))
        except OSError:
            out.append((p, None, None, None))
    return tuple(out)


def unchanged(spec, before: tuple, now: tuple) -> bool:
    k = spec["klass"]
    if k in IMMUTABLE:
        return True
    if k in ("ContentFile", "ContentDir"):  # content-hashed (a ContentDir's members are ContentFiles)
        return [(p, d) for p, _, _, d in before] == [(p, d) for p, _, _, d in now]
    return [(p, s, m) for p, s, m, _ in before] == [(p, s, m) for p, s, m, _ in now]


def flatten_files(v, out):
    from redun.file import File, FileSet

    if isinstance(v, (File, FileSet)):
        out.append(v)
    elif isinstance(v, (list, tuple)):
        for x in v:
            flatten_files(x, out)
    elif isinstance(v, dict):
        for x in v.values():
            flatten_files(x, out)
    return out


class C04(EngineACheck):
    PROPERTY = "C04"
    RULE = (
        "generated workflows whose tasks write and return File, ContentFile, IFile, Dir, FileSet, "
        "ContentDir or IDir values (bare or nested in containers, full or shallow validity) and "
        "tasks consuming them; histories of 2-4 executions on one backend with environment "
        "operations in between (delete, truncate, rewrite with other size, rewrite same size with "
        "later mtime, recreate identical bytes later, add / remove a directory member), mtimes "
        "from a simulated clock, each execution under a seeded schedule; a case is (workflow, "
        "history); non-trivial = an environment operation hit an output of a task that had a "
        "cached result"
    )
    EXPECTED_PROBES = ["env_ops", "replayed_tasks", "reexecuted_after_invalidation", "executions"]
    QUICK_SECONDS = 45.0

    def run_one(self, ch: Choices) -> RunOutcome:
        out = RunOutcome()
        # relative paths (cwd = this worker's scratch directory): the generated source, and with it
        # every task and value hash, is then the same in every process that runs this seed
        os.chdir(schedsim.scratch_dir())
        root = "c04files"
        shutil.rmtree(root, ignore_errors=True)
        os.makedirs(root)
        proglib.CLOCK[0] = 1_700_000_000.0
        prog, specs, calls = gen_program(ch, root)
        db = schedsim.fresh_db("c04.db")
        nexec = 2 + ch.choice(3, "nexec")
        last_snap: dict = {}
        history = []
        w = res = None
        try:
            with enginea.ProgramSession(prog) as sess:
                for ex in range(nexec):
                    ops = []
                    if ex > 0:
                        for _ in range(ch.choice(3, "nops")):
                            ops.append(self.env_op(ch, specs))
                        out.probe("env_ops", len([o for o in ops if o]))
                    pre = {s["i"]: snapshot(s) for s in specs}
                    proglib.reset_hits()
                    res = enginea.simulate(ch, prog, db_path=db, session=sess)
                    w = res.world
                    self.fill(out, w, prog, extra_key=str(ex))
                    out.probe("executions")
                    history.append({"execution": ex, "env_ops": [o for o in ops if o],
                                    "executed": sorted({k[0] for k in proglib.HITS})})
                    if res.outcome[0] != "v":
                        kind = res.outcome[0]
                        name = type(res.outcome[1]).__name__ if kind == "e" else str(res.outcome[1])
                        out.violate("C04.run_does_not_raise", f"{kind}:{name}",
                                    {"history": history, "error": repr(res.outcome[1])[:300]})
                        break
                    executed = {k[0] for k in proglib.HITS}
                    for s in specs:
                        name = f"mk{s['i']}"
                        if ex > 0 and name not in executed:
                            out.probe("replayed_tasks")
                            if not unchanged(s, last_snap[s["i"]], pre[s["i"]]):
                                out.nontrivial = True
                                out.violate("C04.replay_implies_valid", f"{s['klass']}:replayed-stale",
                                            {"history": history, "task": name, "class": s["klass"],
                                             "shallow": s["shallow"],
                                             "recorded": [x[1:3] for x in last_snap[s["i"]]],
                                             "at_lookup": [x[1:3] for x in pre[s["i"]]]})
                        elif ex > 0 and not unchanged(s, last_snap[s["i"]], pre[s["i"]]):
                            out.probe("reexecuted_after_invalidation")
                            out.nontrivial = True
                        if name in executed or ex == 0:
                            last_snap[s["i"]] = snapshot(s)
                    if out.violations:
                        break
                    # (c) returned external values are valid and hold what the task writes
                    import redun.scheduler as rs
                    for v in flatten_files(res.outcome[1], []):
                        kname = type(v).__name__
                        try:
                            ok = v.is_valid()
                        except Exception as e:
                            out.violate("C04.result_valid", f"{kname}:is_valid-raises-{type(e).__name__}",
                                        {"history": history})
                            break
                        if not ok:
                            out.violate("C04.result_valid", f"{kname}:returned-value-invalid",
                                        {"history": history, "value": repr(v)[:120]})
                            break
                    if out.violations:
                        break
                    for s in specs:
                        if s["klass"] in IMMUTABLE:
                            continue
                        for p in paths_of(s):
                            try:
                                with open(p) as f:
                                    txt = f.read()
                            except OSError:
                                txt = None
                            good = txt == "" if s["empty"] else (
                                txt is not None and txt.startswith(f"content-{s['i']}-"))
                            if not good:
                                if os.path.basename(p).startswith("extra"):
                                    continue
                                out.violate("C04.result_reflects_state", f"{s['klass']}:stale-bytes",
                                            {"history": history, "path": os.path.basename(p),
                                             "content": txt and txt[:30]})
                                break
                        if out.violations:
                            break
                    if out.violations:
                        break
        finally:
            shutil.rmtree(root, ignore_errors=True)
        if w is not None:
            s = self.sample(prog, w, res, note={"history": history})
            s["program"] = s["program"][-1500:]
            out.sample = s
        return out

    def env_op(self, ch: Choices, specs) -> str:
        s = specs[ch.choice(len(specs), "op-spec")]
        paths = paths_of(s)
        if not paths:
            return ""
        p = paths[ch.choice(len(paths), "op-path")]
        k = ch.choice(8, "env-op")
        t = proglib.tick([1, 2, 3, 0.0004][ch.choice(4, "dt")])  # (sub-millisecond steps too)
        name = os.path.basename(p)
        try:
            if k == 0:
                os.unlink(p)
                return f"delete {s['klass']}:{name}"
            if k == 1:
                with open(p, "w"):
                    pass
                os.utime(p, (t, t))
                return f"truncate {s['klass']}:{name}"
            if k == 2:
                with open(p, "w") as f:
                    f.write("tampered-with-other-size")
                os.utime(p, (t, t))
                return f"rewrite-other-size {s['klass']}:{name}"
            if k == 3:
                with open(p, "rb") as f:
                    b = f.read()
                with open(p, "wb") as f:
                    f.write(bytes((x + 1) % 256 for x in b))
                os.utime(p, (t, t))
                return f"rewrite-same-size-later-mtime {s['klass']}:{name}"
            if k == 4:
                with open(p, "rb") as f:
                    b = f.read()
                os.unlink(p)
                with open(p, "wb") as f:
                    f.write(b)
                os.utime(p, (t, t))
                return f"recreate-identical-later {s['klass']}:{name}"
            if k == 7:
                with open(p, "rb") as f:
                    b = f.read()
                if len(b) < 2:
                    return ""
                with open(p, "wb") as f:
                    f.write(b[:-1] + bytes([(b[-1] + 1) % 256]))  # only the last byte differs
                os.utime(p, (t, t))
                return f"rewrite-last-byte-later-mtime {s['klass']}:{name}"
            if k == 5 and s["klass"] in ("Dir", "FileSet", "ContentDir", "IDir"):
                q = os.path.join(os.path.dirname(p), "extra.txt")
                with open(q, "w") as f:
                    f.write("extra member")
                os.utime(q, (t, t))
                return f"add-member {s['klass']}"
            if k == 6 and s["klass"] in ("Dir", "FileSet", "ContentDir", "IDir"):
                os.unlink(p)
                return f"remove-member {s['klass']}:{name}"
        except OSError:
            return ""
        return ""


CHECK = C04
