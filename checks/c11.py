"""C11 The job arrayer hands off every job exactly once (engine C, thread simulation)."""

from __future__ import annotations

import logging
import types

from simkit import threadsim
from simkit.choices import Choices
from simkit.runner import Check, RunOutcome


class FakeTask:
    def __init__(self, name: str):
        self.fullname = name
        self.script = False


class FakeJob:
    def __init__(self, jid: int, task: FakeTask, options: dict):
        self.id = f"j{jid}"
        self.task = task
        self._options = options

    def get_options(self) -> dict:
        return dict(self._options)

    def __repr__(self) -> str:
        return self.id


class C11(Check):
    PROPERTY = "C11"
    RULE = (
        "generated job streams (<= 3 descriptions, <= 12 jobs, random min/max array size, stale "
        "time and monitor interval, adds at simulator-chosen virtual times) against the real "
        "JobArrayer; its monitor thread and the adding thread are real threads scheduled one at a "
        "time with pre-emption at bytecode granularity inside redun/job_array.py (PCT-style with "
        "<= 3 pre-emptions, randomized stress, plus a scheduling-latency fault); a case is (job "
        "stream, parameters, schedule); non-trivial = at least one pre-emption or latency fault "
        "was taken while both threads were live"
    )
    ASSUMPTIONS = [
        "CPython executes one bytecode at a time (GIL); pre-emption between bytecodes of "
        "job_array.py covers every interleaving of its own code; code it calls into (dict, list) "
        "is atomic per call",
        "the submit callback and on_error callback are recording stubs",
    ]
    COMPONENTS_REAL = ["redun.job_array.JobArrayer (add_job, start, stop, _monitor_stale_jobs, "
                       "get_stale_descrs, submit_pending_jobs)", "redun.job_array.JobDescription"]
    COMPONENTS_STUB = ["thread scheduling and time: ThreadSim (baton passing, virtual clock)",
                       "Job / Task objects: minimal fakes", "submit_jobs / on_error: recorders"]
    EXPECTED_PROBES = ["preemptions_taken", "batches_submitted", "remainder_requeued"]
    QUICK_SECONDS = 35.0

    def setup(self) -> None:
        logging.disable(logging.CRITICAL)
        import redun.job_array as ja

        threadsim.trace_modules([(ja, "instruction")])

    def run_one(self, ch: Choices) -> RunOutcome:
        import redun.job_array as ja

        out = RunOutcome()
        sim = threadsim.ThreadSim(ch, horizon=1500, max_latency_faults=3)
        min_size = 2 + ch.choice(3, "min-size")
        max_size = min_size + ch.choice(4, "max-extra")
        interval = [0.1, 0.5, 1.0][ch.choice(3, "interval")]
        stale = [0.05, 0.4, 1.5][ch.choice(3, "stale")]
        ndesc = 1 + ch.choice(3, "ndesc")
        njobs = 1 + ch.choice(12, "njobs")
        sim.max_latency = 2 * interval  # a thread is kept off the CPU for at most 2 intervals
        tasks = [FakeTask(f"ns.task{i}") for i in range(ndesc)]
        stream = []
        t = 0.0
        for j in range(njobs):
            gap = [0.0, 0.0, 0.01, 0.3, 2.0][ch.choice(5, "gap")]
            t += gap
            d = ch.choice(ndesc, "desc")
            opts = {"memory": 1 + ch.choice(2, "opt")} if ch.coin(0.3, "opt?") else {}
            stream.append((t, FakeJob(j, tasks[d], opts)))

        batches: list[list[FakeJob]] = []
        errors: list[BaseException] = []

        def submit(jobs):
            batches.append(list(jobs))
            sim.event("submit", tuple(j.id for j in jobs))

        def on_error(e):
            errors.append(e)
            sim.event("on_error", type(e).__name__)

        saved = (ja.threading, ja.time)
        ja.threading = sim.threading_shim()
        ja.time = sim.time_shim()
        threadsim.activate(sim)
        stuck: list[str] = []
        arrayer = None
        try:
            arrayer = ja.JobArrayer(submit, on_error, submit_interval=interval, stale_time=stale,
                                    min_array_size=min_size, max_array_size=max_size)
            t0 = sim.now
            for when, job in stream:
                sim.sleep_until(t0 + when)
                arrayer.add_job(job)
                sim.event("added", job.id)
            # let activity stop: every group has been stale for a while
            # (long enough to absorb every latency fault the simulator may still inject)
            sim.sleep(stale + 3 * interval + 0.5 + 3 * sim.max_latency + (max_size and 0))
            for _ in range(njobs):  # remainders are re-queued and need further rounds
                if not arrayer.pending:
                    break
                sim.sleep(stale + 2 * interval + sim.max_latency)
            pending_count = arrayer.num_pending
            pending_jobs = sum(len(v) for v in arrayer.pending.values())
            arrayer.stop()
        except threadsim.SimThreadExit:
            pending_count = pending_jobs = -1
        finally:
            threadsim.activate(None)
            stuck = sim.shutdown()
            ja.threading, ja.time = saved

        # ---- oracles -------------------------------------------------------------
        out.steps = sim.events
        out.sim_time = sim.now - 1000.0
        out.digest = sim.digest()
        out.key = out.digest
        out.nontrivial = (sim.preemptions + sim.latency_faults) > 0
        out.probe("preemptions_taken", sim.preemptions)
        out.fault("preemption", sim.preemptions)
        out.fault("scheduling_latency", sim.latency_faults)
        out.probe("batches_submitted", len(batches))
        params = {"min": min_size, "max": max_size, "interval": interval, "stale": stale,
                  "mode": sim.mode, "latency": sim.latency}
        if errors:
            out.violate("C11.monitor_never_fails", f"on_error:{type(errors[0]).__name__}",
                        {"error": repr(errors[0])[:200], "params": params})
        mon_err = [t for t in sim.threads if t.error is not None]
        if mon_err:
            out.violate("C11.monitor_never_fails", f"thread-died:{type(mon_err[0].error).__name__}",
                        {"error": repr(mon_err[0].error)[:200]})
        seen: dict = {}
        for b in batches:
            for j in b:
                seen[j.id] = seen.get(j.id, 0) + 1
        added = [j.id for _, j in stream]
        dup = [j for j in added if seen.get(j, 0) > 1]
        lost = [j for j in added if seen.get(j, 0) == 0]
        if dup:
            out.violate("C11.exactly_once", "job-submitted-twice", {"jobs": dup, "params": params})
        if lost and not errors and not mon_err and pending_jobs == 0:
            out.violate("C11.exactly_once", "job-never-submitted", {"jobs": lost, "params": params})
        elif lost and not errors and not mon_err:
            out.violate("C11.exactly_once", "job-still-pending-after-activity-stopped",
                        {"jobs": lost, "pending": pending_jobs, "params": params})
        for b in batches:
            keys = {(j.task.fullname, str(sorted(j.get_options().items()))) for j in b}
            if len(keys) > 1:
                out.violate("C11.batch_shape", "heterogeneous-batch", {"batch": [j.id for j in b]})
            if len(b) > max_size:
                out.violate("C11.batch_shape", "batch-over-max", {"n": len(b), "max": max_size})
            if 1 < len(b) < min_size:
                out.violate("C11.batch_shape", "batch-below-min", {"n": len(b), "min": min_size})
            if len(b) > max_size - 0 and False:
                pass
        if any(len(b) == max_size for b in batches):
            out.probe("remainder_requeued")
        if pending_count >= 0 and not errors and not mon_err:
            not_handed = len(added) - len(seen)
            if pending_count != not_handed:
                out.violate("C11.pending_count", "num_pending-differs",
                            {"num_pending": pending_count, "not_handed_off": not_handed,
                             "params": params})
        if stuck:
            out.violate("C11.monitor_stops", "thread-stuck-after-stop", {"threads": stuck})
        out.sample = {"params": params, "stream": [(round(w, 3), j.id, j.task.fullname) for w, j in stream],
                      "batches": [[j.id for j in b] for b in batches],
                      "events": [e[2:] for e in sim.log[:40]]}
        return out


CHECK = C11
