"""C22 Interrupted or retried recording never corrupts later runs (engine B, fault enumeration)."""

from __future__ import annotations

from simkit import enginea, histsim, refinterp, schedsim
from simkit.acheck import EngineACheck
from simkit.choices import Choices
from simkit.histsim import DbFaultPlan
from simkit.progs import ALL_FEATURES, Gen, GenConfig
from simkit.runner import RunOutcome


def small_config(ch: Choices) -> GenConfig:
    feats = (set(ALL_FEATURES) | {"noprov"}) - {"forkjoin", "async"}
    # (prov=False subtrees: their tasks get recorded only with an ancestor's call node)
    return GenConfig(
        features=feats, p_error=0.3, modes=("thread", "thread", "process"), p_dup=0.2,
        max_tasks=5, max_depth=2, max_fanout=2,
        task_options=[{"check_valid": "shallow"}, {"tags": [("kt", 9)]}, {"prov": False}],
        p_task_option=0.3,
    )


class C22(EngineACheck):
    PROPERTY = "C22"
    LEVEL = "fault_enumeration"
    RULE = (
        "per generated workload (program <= ~10 jobs + one seeded schedule): EVERY commit index of "
        "the recording execution is used as a crash point (complete sweep for that workload), and a "
        "sample of statement indices gets a transient OperationalError (1-3 consecutive); each "
        "faulty execution is followed by a recovery execution of the same or an edited program; in "
        "half of the workloads the backend additionally gets a value store and the process dies "
        "inside sampled ValueStore.put calls (nothing written / torn object / object complete but "
        "row not committed), followed by two further executions; a "
        "case is (workload, fault position, recovery kind); non-trivial = the fault fired"
    )
    EXPECTED_PROBES = ["crash_points", "transient_errors_absorbed", "recoveries_checked",
                       "value_store_crash_points"]
    QUICK_SECONDS = 45.0
    RUN_TIMEOUT = 300.0
    ASSUMPTIONS = EngineACheck.ASSUMPTIONS + [
        "a crash loses exactly the uncommitted transaction (SQLite atomic commit); the crash point "
        "is 'before commit k', which together with 'after the last commit' covers every durable "
        "state a kill -9 can leave",
    ]

    def run_one(self, ch: Choices) -> RunOutcome:
        out = RunOutcome()
        prog = Gen(ch, small_config(ch)).generate()
        sched_seed = ch.choice(1 << 30, "sched-seed")
        rec_seed = ch.choice(1 << 30, "recovery-sched-seed")
        # The edited program for recovery runs: one value-changing edit.
        edited = histsim.clone_program(prog)
        cands = histsim.editable_tasks(edited)
        if cands:
            histsim.apply_variant(cands[ch.choice(len(cands), "edit-task")], 1)
        max_points = 12 if self.tier == "quick" else 10 ** 6
        n_stmt_faults = 6 if self.tier == "quick" else 40

        with enginea.ProgramSession(prog) as sess:
            # Reference: fault-free execution of the same schedule on an empty backend.
            db0 = schedsim.fresh_db("base.db")
            base, f0 = histsim.run_with_faults(sched_seed, prog, db0, sess, ns=1000)
            self.fill(out, base.world, prog, extra_key="base")
            if base.outcome[0] == "abort":
                out.probe("aborted_runs")
                return out
            fresh_same = refinterp.okey(base.outcome)
            K, S = f0.commits, f0.stmts
            base_dump = histsim.normalised_dump(db0, drop_value_types=("redun.ErrorValue",))
            out.extra["commits_in_workload"] = K
            # Fresh-backend outcome of the edited program.
            sess.reload(edited)
            dbe = schedsim.fresh_db("edited.db")
            e_res, _ = histsim.run_with_faults(rec_seed, edited, dbe, sess)
            fresh_edited = refinterp.okey(e_res.outcome) if e_res.outcome[0] != "abort" else None
            sess.reload(prog)

            # ---- crash sweep: every commit index (quick: evenly thinned to max_points) ----
            ks = list(range(1, K + 1))
            if len(ks) > max_points:
                start = ch.choice(len(ks), "sweep-offset")
                step = len(ks) / max_points
                ks = sorted({ks[int((start + i * step) % len(ks))] for i in range(max_points)})
            else:
                out.probe("complete_commit_sweeps")
            for k in ks:
                db = schedsim.fresh_db("crash.db")
                res, f = histsim.run_with_faults(sched_seed, prog, db, sess,
                                                 plan=DbFaultPlan(crash_at_commit=k))
                if not f.crashed:
                    continue
                out.probe("crash_points")
                out.fault("crash_before_commit")
                out.nontrivial = True
                site = f.crash_site
                bad = histsim.logical_reference_violations(db)
                if bad:
                    out.violate("C22.references_after_crash", f"{bad[0][0]}@{site}",
                                {"k": k, "of": K, "site": site, "violations": bad[:5]})
                    continue
                use_edited = bool(ch.choice(2, "recover-edited")) and fresh_edited is not None
                if use_edited:
                    sess.reload(edited)
                rerecorded: set = set()

                def watch_record_value(w, rec, sched, seen=rerecorded):
                    orig = sched.backend.record_value

                    def record_value(*a, **kw):
                        h = orig(*a, **kw)
                        seen.add(h)
                        return h

                    sched.backend.record_value = record_value

                r2, _ = histsim.run_with_faults(rec_seed, edited if use_edited else prog, db, sess,
                                                extra_setup=watch_record_value)
                if use_edited:
                    sess.reload(prog)
                out.probe("recoveries_checked")
                if r2.outcome[0] == "abort":
                    out.violate("C22.recovery_terminates", f"{r2.outcome[1]}@{site}", {"k": k})
                    continue
                got = refinterp.okey(r2.outcome)
                want = fresh_edited if use_edited else fresh_same
                if got != want:
                    kind = "edited" if use_edited else "same"
                    errname = got[1][1] if got[0] == "e" else "value"
                    out.violate("C22.recovery_equals_fresh", f"crash@{site}->{errname}/{kind}",
                                {"k": k, "of": K, "site": site, "recovered": repr(got)[:300],
                                 "fresh": repr(want)[:300], "program": kind})
                    continue
                bad = histsim.logical_reference_violations(db)
                if bad:
                    out.violate("C22.references_after_recovery", f"{bad[0][0]}@{site}",
                                {"k": k, "violations": bad[:5]})
                    continue
                # nothing lost for good: after the recovery execution every call node lists its
                # own task and everything its recorded children list
                from checks.c03 import subtree_closure_violations

                lost = subtree_closure_violations(db)
                if lost:
                    out.violate("C22.references_after_recovery", f"subtree-rows:{lost[0][0]}@{site}",
                                {"k": k, "violations": lost[:5]})
                    continue
                if not use_edited:
                    # ... and every container value the recovery execution recorded (again) is
                    # linked to its subvalues; a value that only the killed execution touched
                    # (the recovery run may fail or be served from the cache before reaching
                    # it) is unfinished business of a dead process, not a lost record
                    sv = histsim.subvalue_link_violations(db, only=rerecorded)
                    if sv:
                        out.violate("C22.references_after_recovery", f"{sv[0][0]}@{site}",
                                    {"k": k, "violations": sv[:5]})

            # ---- crash inside value-store writes (the backend's other durable store) ----
            if ch.coin(0.5, "value-store-part"):
                self.value_store_part(ch, out, prog, sess, sched_seed, rec_seed, fresh_same)

            # ---- transient OperationalError at sampled statement indices ----
            for _ in range(n_stmt_faults):
                j = 1 + ch.choice(max(S, 1), "stmt-index")
                rep = 1 + ch.choice(3, "repeat")
                db = schedsim.fresh_db("err.db")
                res, f = histsim.run_with_faults(
                    sched_seed, prog, db, sess, ns=1000,
                    plan=DbFaultPlan(error_at_stmt=j, error_repeat=rep))
                if not f.errors_raised:
                    continue
                out.fault("transient_operational_error", f.errors_raised)
                out.nontrivial = True
                site = f.error_site
                if res.outcome[0] == "abort":
                    out.violate("C22.retry_terminates", f"{res.outcome[1]}@{site}", {"j": j})
                    continue
                got = refinterp.okey(res.outcome)
                escaped = got[0] == "e" and got[1][1] in ("OperationalError",)
                if escaped:
                    out.probe("transient_errors_escaped_unretried")
                    # Treated like an interruption: the backend must stay usable.
                    bad = histsim.logical_reference_violations(db)
                    if bad:
                        out.violate("C22.references_after_error", f"{bad[0][0]}@{site}",
                                    {"j": j, "violations": bad[:5]})
                        continue
                    r2, _ = histsim.run_with_faults(rec_seed, prog, db, sess)
                    g2 = refinterp.okey(r2.outcome) if r2.outcome[0] != "abort" else ("abort",)
                    if g2 != fresh_same:
                        out.violate("C22.recovery_equals_fresh", f"error@{site}/same",
                                    {"j": j, "site": site, "recovered": repr(g2)[:300],
                                     "fresh": repr(fresh_same)[:300]})
                    continue
                out.probe("transient_errors_absorbed")
                if got != fresh_same:
                    out.violate("C22.retry_outcome", f"error@{site}",
                                {"j": j, "rep": rep, "site": site, "got": repr(got)[:300],
                                 "fresh": repr(fresh_same)[:300]})
                    continue
                dump = histsim.normalised_dump(db, drop_value_types=("redun.ErrorValue",))
                # Hashes of ErrorValues (pickled tracebacks) are not stable between two
                # executions, and they feed call hashes; for workloads that record an error
                # only the row counts are compared.
                has_errors = any("redun.ErrorValue" in repr(r) for r in
                                 histsim.normalised_dump(db0, tables=["value"])["value"])
                for table in dump:
                    a_rows, b_rows = base_dump[table], dump[table]
                    same = (len(a_rows) == len(b_rows)) if has_errors else (a_rows == b_rows)
                    if not same:
                        a, b = set(map(repr, a_rows)), set(map(repr, b_rows))
                        out.violate("C22.retry_conserves_records", f"{table}@{site}",
                                    {"j": j, "rep": rep, "site": site, "table": table,
                                     "lost": sorted(a - b)[:3], "extra": sorted(b - a)[:3],
                                     "counts": [len(a_rows), len(b_rows)]})
                        break
        out.key = f"{prog.key()}/{sched_seed}"
        out.sample = self.sample(prog, base.world, base, note={"commits": K, "statements": S,
                                                              "crash_points_swept": len(ks)})
        return out

    def value_store_part(self, ch: Choices, out: RunOutcome, prog, sess, sched_seed: int,
                         rec_seed: int, fresh_same) -> None:
        """The same workload with a value store configured (threshold low enough that almost
        every value is offloaded).  The process dies at the k-th ValueStore.put: before anything
        is written, after a prefix reached the disk (torn object), or after the object is
        complete but before its database row is committed.  Then a recovery execution (re-records)
        and one more execution (reads what the recovery left) must both equal the fresh run."""
        import os
        import shutil

        from redun.backends.value_store import ValueStore
        from simkit.schedsim import SimCrash

        vs_dir = os.path.join(schedsim.scratch_dir(), "c22-valuestore")

        def configure(plan):
            def setup(w, rec, sched):
                store = ValueStore(vs_dir)
                sched.backend.value_store = store
                sched.backend.value_store_min_size = 40
                orig_put = store.put
                plan["puts"] = 0

                def put(value_hash, data):
                    plan["puts"] += 1
                    if plan.get("at") == plan["puts"] and not plan.get("fired"):
                        plan["fired"] = True
                        mode = plan["mode"]
                        path = store.get_value_path(value_hash)
                        plan["fresh_object"] = not os.path.exists(path)
                        if mode == "torn" and plan["fresh_object"]:
                            os.makedirs(os.path.dirname(path), exist_ok=True)
                            with open(path, "wb") as f:
                                f.write(data[: plan["prefix"] % max(len(data), 1)])
                        elif mode == "after":
                            orig_put(value_hash, data)
                        w.dead = True
                        w.event("CRASH", "value-store-put", plan["puts"], mode)
                        raise SimCrash(f"process dies in value store put {plan['puts']} ({mode})")
                    return orig_put(value_hash, data)

                store.put = put
            return setup

        shutil.rmtree(vs_dir, ignore_errors=True)
        db = schedsim.fresh_db("vs-base.db")
        plan0: dict = {}
        res0, _ = histsim.run_with_faults(sched_seed, prog, db, sess, extra_setup=configure(plan0))
        nputs = plan0.get("puts", 0)
        if res0.outcome[0] == "abort" or refinterp.okey(res0.outcome) != fresh_same:
            if res0.outcome[0] != "abort":
                out.violate("C22.value_store_transparent", "fault-free",
                            {"got": repr(refinterp.okey(res0.outcome))[:300],
                             "fresh": repr(fresh_same)[:300]})
            return
        if nputs == 0:
            return
        points = 4 if self.tier == "quick" else min(3 * nputs, 60)
        for _ in range(points):
            plan = {"at": 1 + ch.choice(nputs, "put-index"),
                    "mode": ["before", "torn", "torn", "after"][ch.choice(4, "put-crash-mode")],
                    "prefix": ch.choice(64, "torn-prefix")}
            shutil.rmtree(vs_dir, ignore_errors=True)
            db = schedsim.fresh_db("vs-crash.db")
            histsim.run_with_faults(sched_seed, prog, db, sess, extra_setup=configure(plan))
            if not plan.get("fired"):
                continue
            out.fault("crash_in_value_store_put_" + plan["mode"])
            out.probe("value_store_crash_points")
            out.nontrivial = True
            sig = f"crash@value-store-put/{plan['mode']}"
            for step in ("recovery", "after-recovery"):
                r, _ = histsim.run_with_faults(rec_seed, prog, db, sess, extra_setup=configure({}))
                got = refinterp.okey(r.outcome) if r.outcome[0] != "abort" else ("abort", r.outcome[1])
                if got != fresh_same:
                    errname = got[1][1] if got[0] == "e" else got[0]
                    out.violate("C22.recovery_equals_fresh", f"{sig}->{errname}/{step}",
                                {"put": plan["at"], "of": nputs, "mode": plan["mode"],
                                 "prefix": plan["prefix"], "step": step,
                                 "recovered": repr(got)[:300], "fresh": repr(fresh_same)[:300]})
                    break
        shutil.rmtree(vs_dir, ignore_errors=True)


CHECK = C22
