"""C02 Cached executions return what an uncached run would return (engine B)."""

from __future__ import annotations

from simkit import enginea, histsim, refinterp, schedsim
from simkit.acheck import EngineACheck
from simkit.choices import Choices
from simkit.progs import ALL_FEATURES, Gen, GenConfig, gen_value
from simkit.runner import RunOutcome


def outcome_key(res) -> tuple:
    """Value, or error *type* (the statement asks for the same value or error type)."""
    if res.outcome[0] == "v":
        return refinterp.okey(res.outcome)
    if res.outcome[0] == "e":
        return ("e", type(res.outcome[1]).__name__)
    return ("abort", res.outcome[1])


class C02(EngineACheck):
    PROPERTY = "C02"
    RULE = (
        "histories of up to 6 executions over one backend; between executions: value-changing "
        "edits of task bodies (with a version bump for versioned tasks), neutral body edits, "
        "reverts to earlier bodies/versions, argument changes; each execution runs under default "
        "caching with its own seeded schedule, on a fresh or on the reused Scheduler object, and "
        "is compared with the same program version on an empty backend; a case is (program "
        "family, history); non-trivial = at least one step replayed something from the cache "
        "after an edit"
    )
    EXPECTED_PROBES = ["steps_checked", "reverts", "version_bumps", "scheduler_reused",
                       "cache_hits_after_edit"]
    QUICK_SECONDS = 45.0

    def run_one(self, ch: Choices) -> RunOutcome:
        out = RunOutcome()
        # Known finding: catch() keys its cache entry without the hashes of the tasks involved.
        avoid_catch = ch.choice(4, "avoid-catch") != 0
        feats = set(ALL_FEATURES) - {"forkjoin", "tags"}
        if avoid_catch:
            feats -= {"catch"}
            out.probe("histories_without_catch")
        cfg = GenConfig(
            features=feats, p_error=0.25 if avoid_catch else 0.9, modes=("thread", "thread", "process", "async"),
            p_dup=0.2, max_tasks=6, max_depth=2,
            task_options=[{"check_valid": "shallow"}, {"cache_scope": "CSE"}], p_task_option=0.25,
        )
        prog = Gen(ch, cfg).generate()
        for t in prog.tasks:
            t.variant = 0
            if not t.is_async and ch.coin(0.3, "versioned?"):
                t.version = "v0"
        nsteps = 2 + ch.choice(5, "nsteps")
        reuse = bool(ch.choice(2, "reuse-scheduler"))
        db = schedsim.fresh_db("hist.db")
        history = []
        seen_variants: dict = {}
        shared_sched = None
        sess = enginea.ProgramSession(prog)
        last_w = last_res = None
        with sess:
            try:
                for step in range(nsteps):
                    desc = []
                    if step > 0:
                        for _ in range(1 + ch.choice(2, "nedits")):
                            kind = ch.choice(6, "edit-kind")
                            cands = histsim.editable_tasks(prog)
                            if kind <= 1 and cands:
                                t = cands[ch.choice(len(cands), "edit-task")]
                                v = 1 + ch.choice(3, "variant")
                                if v == getattr(t, "variant", 0):
                                    v = 0
                                seen_variants.setdefault(t.name, {0})
                                if v in seen_variants[t.name]:
                                    out.probe("reverts")
                                seen_variants[t.name].add(v)
                                histsim.apply_variant(t, v)
                                if t.version is not None:
                                    t.version = f"v{v}" + ("r" if t.raises else "")
                                    out.probe("version_bumps")
                                desc.append(f"{t.name}:variant={v}")
                            elif kind == 5 and "errors" in feats:
                                # a leaf starts / stops raising (value-changing edit)
                                leaves = [t for t in prog.tasks if t.leaf and not t.recover]
                                raising = [t for t in leaves if t.raises]
                                if raising and ch.coin(0.7, "toggle-raising-one"):
                                    t = raising[ch.choice(len(raising), "raise-task")]
                                else:
                                    t = leaves[ch.choice(len(leaves), "raise-task")]
                                if t.raises:
                                    t.raises = None
                                else:
                                    t.raises = ("ValueError", f"boom-{t.name}")
                                if t.version is not None:
                                    t.version = f"v{getattr(t, 'variant', 0)}" + ("r" if t.raises else "")
                                out.probe("raise_toggles")
                                desc.append(f"{t.name}:raises={bool(t.raises)}")
                            elif kind == 2:
                                t = prog.tasks[ch.choice(len(prog.tasks), "salt-task")]
                                t.body_salt = ch.choice(3, "salt")
                                desc.append(f"{t.name}:neutral-edit={t.body_salt}")
                            elif kind == 3 and prog.tasks[0].params:
                                prog.main_args = [gen_value(ch, k) for (_, k, _) in prog.tasks[0].params]
                                desc.append("main-args")
                            else:
                                desc.append("no-edit")
                        sess.reload(prog)
                    # oracle: the same program version on an empty backend
                    fresh = enginea.simulate(ch, prog, db_path=schedsim.fresh_db("fresh.db"),
                                             session=sess)
                    want = outcome_key(fresh)
                    if want[0] == "abort":
                        out.probe("aborted_runs")
                        break
                    use_shared = reuse and shared_sched is not None
                    res = enginea.simulate(ch, prog, db_path=db, session=sess, keep_backend=True,
                                           scheduler=shared_sched if use_shared else None)
                    if use_shared:
                        out.probe("scheduler_reused")
                    if reuse:
                        shared_sched = res.scheduler
                    else:
                        schedsim.close_backend(res.backend)
                    last_w, last_res = res.world, res
                    self.fill(out, res.world, prog, extra_key=str(step))
                    out.probe("steps_checked")
                    cached = sum(1 for j in res.rec.order if res.rec.jobs[j].was_cached)
                    if step > 0 and cached:
                        out.probe("cache_hits_after_edit")
                        out.nontrivial = True
                    history.append({"step": step, "edits": desc, "reused_scheduler": use_shared,
                                    "outcome": repr(outcome_key(res))[:120], "cached_jobs": cached})
                    got = outcome_key(res)
                    if got != want:
                        has_catch = any(n[0] == "catch" for t in prog.tasks
                                        for n in _walk(t.body)) if not avoid_catch else False
                        sig = ("reused-scheduler/" if use_shared else "fresh-scheduler/") + \
                              ("with-catch" if has_catch else "no-catch")
                        if got[0] == "e" and want[0] == "v":
                            sig += "/raises-" + got[1]
                        elif any(h["outcome"] == repr(got)[:120] for h in history[:-1]):
                            sig += "/stale-earlier-outcome"
                        out.violate("C02.equals_uncached", sig,
                                    {"step": step, "history": history, "got": repr(got)[:300],
                                     "uncached": repr(want)[:300]})
                        break
            finally:
                if shared_sched is not None:
                    schedsim.close_backend(shared_sched.backend)
        if last_w is not None:
            out.sample = self.sample(prog, last_w, last_res, note={"history": history})
            out.key = f"{out.key}/{len(history)}"
        return out


def _walk(node):
    from simkit.progs import walk

    return walk(node)


CHECK = C02
