"""C02 Cached executions return what an uncached run would return (engine B)."""

from __future__ import annotations

from simkit import enginea, histsim, refinterp, schedsim
from simkit.acheck import EngineACheck
from simkit.choices import Choices
from simkit.progs import ALL_FEATURES, Gen, GenConfig, gen_value
from simkit.runner import RunOutcome


def outcome_key(res) -> tuple:
    """Value, or error *type* (the statement asks for the same value or error type)."""
    if res.outcome[0] == "v":
        return refinterp.okey(res.outcome)
    if res.outcome[0] == "e":
        return ("e", type(res.outcome[1]).__name__)
    return ("abort", res.outcome[1])


# ---------------------------------------------------------------------------
# Input-file family: tasks that read input files handed over in every shape the scheduler
# distinguishes (positionally, by keyword, nested in containers, inside a cached expression built
# by a parent, beneath a shallow-validity parent, content-hashed, as a directory).
# ---------------------------------------------------------------------------

FILE_READERS = ["readf", "readkw", "readl", "readd", "readc", "readdir"]
# tasks that *construct* the File values: a neutral edit of their body makes them run again (and
# build fresh, not yet hashed File objects) without changing what they mean
FILE_PARENTS = ["mk", "mkkw", "mkl", "mkd", "mkkwl", "mkc", "mkdir_", "deep"]

FILE_FORMS = [
    # (name, source template with {p} = path literal, {q} = second path literal, {d} = dir literal)
    ("direct", "readf(File({p}))"),
    ("mk", "mk({p})"),
    ("mkkw", "mkkw({p})"),
    ("mkl", "mkl({p}, {q})"),
    ("mkd", "mkd({p})"),
    ("mkkwl", "mkkwl({p}, {q})"),
    # (no check_valid="shallow" parents here: the statement is about default caching, and
    # shallow validity is documented to skip the validity of intermediate values such as an
    # input File consumed inside the subtree)
    ("content", "mkc({p})"),
    ("dir", "mkdir_({d})"),
    ("deep", "deep({p})"),
]


def file_family_source(salts: dict, items: list) -> str:
    from simkit.progs import HEADER

    S = lambda r: f"{r}-{salts.get(r, 0)}"
    L = [HEADER.format(ns="vp"),
         "import os\nfrom redun.file import File, ContentFile, Dir\n\n",
         f"@task()\ndef readf(f):\n    hit('readf')\n    return mix('{S('readf')}', f.read())\n\n",
         f"@task()\ndef readkw(x, f=None, g=None):\n    hit('readkw')\n"
         f"    return mix('{S('readkw')}', x, f.read() if f is not None else '', "
         f"[h.read() for h in (g or [])])\n\n",
         f"@task()\ndef readl(fs):\n    hit('readl')\n    return mix('{S('readl')}', [f.read() for f in fs])\n\n",
         f"@task()\ndef readd(d):\n    hit('readd')\n"
         f"    return mix('{S('readd')}', sorted((k, f.read()) for k, f in d.items()))\n\n",
         f"@task()\ndef readc(f):\n    hit('readc')\n    return mix('{S('readc')}', f.read())\n\n",
         f"@task()\ndef readdir(d):\n    hit('readdir')\n"
         f"    return mix('{S('readdir')}', sorted((os.path.basename(f.path), f.read()) for f in d))\n\n",
         f"@task()\ndef mk(path):\n    _salt = {salts.get('P:mk', 0)}\n    return readf(File(path))\n\n",
         f"@task()\ndef mkkw(path):\n    _salt = {salts.get('P:mkkw', 0)}\n    return readkw(1, f=File(path))\n\n",
         f"@task()\ndef mkl(path, q):\n    _salt = {salts.get('P:mkl', 0)}\n    return readl([File(path), File(q)])\n\n",
         f"@task()\ndef mkd(path):\n    _salt = {salts.get('P:mkd', 0)}\n    return readd({{'a': File(path)}})\n\n",
         f"@task()\ndef mkkwl(path, q):\n    _salt = {salts.get('P:mkkwl', 0)}\n    return readkw(2, g=[File(path), File(q)])\n\n",
         f"@task()\ndef mkc(path):\n    _salt = {salts.get('P:mkc', 0)}\n    return readc(ContentFile(path))\n\n",
         f"@task()\ndef mkdir_(path):\n    _salt = {salts.get('P:mkdir_', 0)}\n    return readdir(Dir(path))\n\n",
         f"@task()\ndef deep(path):\n    _salt = {salts.get('P:deep', 0)}\n    return [mk(path), mkkw(path)]\n\n",
         f"@task()\ndef t0():\n    return [{', '.join(items)}]\n"]
    return "".join(L)


def tasks_under_catch(prog) -> set:
    """Names of tasks reachable (transitively) from the guarded expression of any catch."""
    def direct(node):
        out = set()
        for n in _walk(node):
            if n[0] == "call":
                out.add(n[1])
            elif n[0] in ("map", "flatmap"):
                out.add(n[1])
        return out

    by_idx = {t.idx: t for t in prog.tasks}
    calls = {t.idx: direct(t.body) | set().union(*[direct(a[1]) for a in t.awaits] or [set()])
             | set().union(*[direct(p[2]) for p in t.params if p[2] is not None] or [set()])
             for t in prog.tasks}
    seeds = set()
    for t in prog.tasks:
        nodes = [t.body] + [a[1] for a in t.awaits]
        for root in nodes:
            for n in _walk(root):
                if n[0] == "catch":
                    seeds |= direct(n[1])
    reach, todo = set(), list(seeds)
    while todo:
        i = todo.pop()
        if i in reach or i not in by_idx:
            continue
        reach.add(i)
        todo.extend(calls.get(i, ()))
    return {by_idx[i].name for i in reach}


class C02(EngineACheck):
    PROPERTY = "C02"
    RULE = (
        "histories of up to 6 executions over one backend; between executions: value-changing "
        "edits of task bodies (with a version bump for versioned tasks), neutral body edits, "
        "reverts to earlier bodies/versions, argument changes; each execution runs under default "
        "caching with its own seeded schedule, on a fresh or on the reused Scheduler object, and "
        "is compared with the same program version on an empty backend; a case is (program "
        "family, history); non-trivial = at least one step replayed something from the cache "
        "after an edit. Every second history instead uses a family of input-file readers (File "
        "passed positionally, by keyword, nested in list / dict, inside the expression a parent "
        "returns, ContentFile, Dir) with input-file rewrites "
        "(other size; same size, later mtime; recreated; restored) from a simulated clock and "
        "edits / reverts of the reader bodies between executions"
    )
    EXPECTED_PROBES = ["steps_checked", "reverts", "version_bumps", "scheduler_reused",
                       "cache_hits_after_edit", "file_family_histories", "input_rewrites"]
    QUICK_SECONDS = 45.0

    def run_file_family(self, ch: Choices) -> RunOutcome:
        import os
        import shutil

        from simkit import proglib
        from simkit.progs import RawProgram

        out = RunOutcome()
        out.probe("file_family_histories")
        os.chdir(schedsim.scratch_dir())  # relative paths: same hashes in every process
        root = "c02files"
        shutil.rmtree(root, ignore_errors=True)
        os.makedirs(os.path.join(root, "ind"))
        proglib.CLOCK[0] = 1_700_000_000.0
        files = [os.path.join(root, "in0.txt"), os.path.join(root, "in1.txt"),
                 os.path.join(root, "ind", "m0.txt"), os.path.join(root, "ind", "m1.txt")]
        counter = [0]

        def write(path, data):
            with open(path, "w") as f:
                f.write(data)
            # (the clock may advance by well under a millisecond: any distinct mtime counts)
            t = proglib.tick([1, 2, 3, 0.0004][ch.choice(4, "dt")])
            os.utime(path, (t, t))

        for i, path in enumerate(files):
            write(path, f"initial-{i}")
        n = 1 + ch.choice(4, "nitems")
        items = []
        for _ in range(n):
            name, tpl = FILE_FORMS[ch.choice(len(FILE_FORMS), "form")]
            a = ch.choice(2, "file")
            items.append(tpl.format(p=repr(files[a]), q=repr(files[1 - a]),
                                    d=repr(os.path.join(root, "ind"))))
        salts: dict = {}
        prog = RawProgram(file_family_source(salts, items))
        nsteps = 2 + ch.choice(4, "nsteps")
        db = schedsim.fresh_db("hist.db")
        history = []
        last_w = last_res = None
        try:
            with enginea.ProgramSession(prog) as sess:
                for step in range(nsteps):
                    desc = []
                    if step > 0:
                        for _ in range(1 + ch.choice(2, "nedits")):
                            kind = ch.choice(7, "file-edit-kind")
                            path = files[ch.choice(len(files), "edit-file")]
                            base = os.path.basename(path)
                            if kind == 0:
                                counter[0] += 1
                                write(path, f"rewritten-{counter[0]}-" + "x" * counter[0])
                                desc.append(f"rewrite-other-size:{base}")
                                out.probe("input_rewrites")
                            elif kind == 1:
                                with open(path) as f:
                                    old = f.read()
                                new = "".join(chr((ord(c) - 32 + 1) % 90 + 32) for c in old)
                                write(path, new)
                                desc.append(f"rewrite-same-size-later-mtime:{base}")
                                out.probe("input_rewrites")
                            elif kind == 2:
                                with open(path) as f:
                                    old = f.read()
                                os.unlink(path)
                                write(path, old)
                                desc.append(f"recreate-same-bytes-later-mtime:{base}")
                            elif kind == 3:
                                write(path, f"initial-{files.index(path)}")
                                desc.append(f"restore-initial-content:{base}")
                                out.probe("input_rewrites")
                            elif kind == 4:
                                r = FILE_READERS[ch.choice(len(FILE_READERS), "edit-reader")]
                                v = ch.choice(3, "salt")
                                if v != salts.get(r, 0):
                                    out.probe("reverts" if v == 0 else "body_edits")
                                salts[r] = v
                                desc.append(f"{r}:body={v}")
                            elif kind == 5:
                                r = FILE_PARENTS[ch.choice(len(FILE_PARENTS), "edit-parent")]
                                salts["P:" + r] = ch.choice(3, "parent-salt")
                                out.probe("parent_body_edits")
                                desc.append(f"{r}:neutral-edit={salts['P:' + r]}")
                            else:
                                desc.append("no-edit")
                        if any(d.startswith(("rewrite", "restore")) for d in desc) \
                                and ch.coin(0.4, "parent-edit-with-rewrite"):
                            # the input changes *and* the task that builds the File value runs
                            # again (fresh, not yet hashed File objects)
                            r = FILE_PARENTS[ch.choice(len(FILE_PARENTS), "edit-parent")]
                            salts["P:" + r] = (salts.get("P:" + r, 0) + 1) % 3
                            out.probe("parent_body_edits")
                            desc.append(f"{r}:neutral-edit={salts['P:' + r]}")
                        prog = RawProgram(file_family_source(salts, items))
                        sess.reload(prog)
                    fresh = enginea.simulate(ch, prog, db_path=schedsim.fresh_db("fresh.db"),
                                             session=sess)
                    want = outcome_key(fresh)
                    if want[0] == "abort":
                        out.probe("aborted_runs")
                        break
                    res = enginea.simulate(ch, prog, db_path=db, session=sess)
                    last_w, last_res = res.world, res
                    self.fill(out, res.world, prog, extra_key=str(step))
                    out.probe("steps_checked")
                    cached = sum(1 for j in res.rec.order if res.rec.jobs[j].was_cached)
                    if step > 0 and cached:
                        out.probe("cache_hits_after_edit")
                        out.nontrivial = True
                    got = outcome_key(res)
                    history.append({"step": step, "edits": desc, "outcome": repr(got)[:120],
                                    "cached_jobs": cached})
                    if got != want:
                        sig = "input-files"
                        if got[0] == "e" and want[0] == "v":
                            sig += "/raises-" + got[1]
                        elif any(h["outcome"] == repr(got)[:120] for h in history[:-1]):
                            sig += "/stale-earlier-outcome"
                        wrong = [items[i] for i in range(len(items))
                                 if got[0] == "v" and want[0] == "v" and i < len(got[1][1])
                                 and got[1][1][i] != want[1][1][i]] if got[0] == "v" else []
                        out.violate("C02.equals_uncached", sig,
                                    {"step": step, "history": history, "items": [
                                        x.replace(root + "/", "") for x in items],
                                     "got": repr(got)[:300], "uncached": repr(want)[:300]})
                        break
        finally:
            shutil.rmtree(root, ignore_errors=True)
        if last_w is not None:
            out.sample = {"t0": [x.replace(root + "/", "") for x in items], "history": history,
                          "schedule_events": [e[2:] for e in last_w.log[:40]]}
            out.key = f"{out.key}/{len(history)}"
        return out

    def run_one(self, ch: Choices) -> RunOutcome:
        if ch.choice(2, "program-family") == 1:
            return self.run_file_family(ch)
        out = RunOutcome()
        # Known finding: catch() keys its cache entry without the hashes of the tasks involved.
        avoid_catch = ch.choice(4, "avoid-catch") != 0
        feats = set(ALL_FEATURES) - {"forkjoin", "tags"}
        if avoid_catch:
            feats -= {"catch"}
            out.probe("histories_without_catch")
        cfg = GenConfig(
            features=feats, p_error=0.25 if avoid_catch else 0.9, modes=("thread", "thread", "process", "async"),
            p_dup=0.2, max_tasks=6, max_depth=2,
            task_options=[{"check_valid": "shallow"}, {"cache_scope": "CSE"}], p_task_option=0.25,
        )
        prog = Gen(ch, cfg).generate()
        for t in prog.tasks:
            t.variant = 0
            if not t.is_async and ch.coin(0.3, "versioned?"):
                t.version = "v0"
        nsteps = 2 + ch.choice(5, "nsteps")
        reuse = bool(ch.choice(2, "reuse-scheduler"))
        db = schedsim.fresh_db("hist.db")
        history = []
        seen_variants: dict = {}
        edited: set = set()
        shared_sched = None
        sess = enginea.ProgramSession(prog)
        last_w = last_res = None
        with sess:
            try:
                for step in range(nsteps):
                    desc = []
                    if step > 0:
                        for _ in range(1 + ch.choice(2, "nedits")):
                            kind = ch.choice(6, "edit-kind")
                            cands = histsim.editable_tasks(prog)
                            if kind <= 1 and cands:
                                t = cands[ch.choice(len(cands), "edit-task")]
                                v = 1 + ch.choice(3, "variant")
                                if v == getattr(t, "variant", 0):
                                    v = 0
                                seen_variants.setdefault(t.name, {0})
                                if v in seen_variants[t.name]:
                                    out.probe("reverts")
                                seen_variants[t.name].add(v)
                                histsim.apply_variant(t, v)
                                edited.add(t.name)
                                if t.version is not None:
                                    t.version = f"v{v}" + ("r" if t.raises else "")
                                    out.probe("version_bumps")
                                desc.append(f"{t.name}:variant={v}")
                            elif kind == 5 and "errors" in feats:
                                # a leaf starts / stops raising (value-changing edit)
                                leaves = [t for t in prog.tasks if t.leaf and not t.recover]
                                raising = [t for t in leaves if t.raises]
                                if raising and ch.coin(0.7, "toggle-raising-one"):
                                    t = raising[ch.choice(len(raising), "raise-task")]
                                else:
                                    t = leaves[ch.choice(len(leaves), "raise-task")]
                                edited.add(t.name)
                                if t.raises:
                                    t.raises = None
                                else:
                                    t.raises = ("ValueError", f"boom-{t.name}")
                                if t.version is not None:
                                    t.version = f"v{getattr(t, 'variant', 0)}" + ("r" if t.raises else "")
                                out.probe("raise_toggles")
                                desc.append(f"{t.name}:raises={bool(t.raises)}")
                            elif kind == 2:
                                t = prog.tasks[ch.choice(len(prog.tasks), "salt-task")]
                                t.body_salt = ch.choice(3, "salt")
                                desc.append(f"{t.name}:neutral-edit={t.body_salt}")
                            elif kind == 3 and prog.tasks[0].params:
                                if ch.coin(0.4, "same-number-other-type"):
                                    # the same numbers as other types (1 -> 1.0 -> 1): equal and
                                    # equally hashed for Python, different values for the workflow
                                    def retype(v):
                                        if isinstance(v, bool):
                                            return v
                                        if isinstance(v, int):
                                            return float(v)
                                        if isinstance(v, float) and v == int(v):
                                            return int(v)
                                        if isinstance(v, (list, tuple)) and type(v) in (list, tuple):
                                            return type(v)(retype(x) for x in v)
                                        return v

                                    prog.main_args = [retype(v) for v in prog.main_args]
                                    out.probe("argument_type_changes")
                                    desc.append("main-args-retyped")
                                else:
                                    prog.main_args = [gen_value(ch, k) for (_, k, _) in prog.tasks[0].params]
                                    desc.append("main-args")
                            else:
                                desc.append("no-edit")
                        sess.reload(prog)
                    # oracle: the same program version on an empty backend
                    fresh = enginea.simulate(ch, prog, db_path=schedsim.fresh_db("fresh.db"),
                                             session=sess)
                    want = outcome_key(fresh)
                    if want[0] == "abort":
                        out.probe("aborted_runs")
                        break
                    use_shared = reuse and shared_sched is not None
                    res = enginea.simulate(ch, prog, db_path=db, session=sess, keep_backend=True,
                                           scheduler=shared_sched if use_shared else None)
                    if use_shared:
                        out.probe("scheduler_reused")
                    if reuse:
                        shared_sched = res.scheduler
                    else:
                        schedsim.close_backend(res.backend)
                    last_w, last_res = res.world, res
                    self.fill(out, res.world, prog, extra_key=str(step))
                    out.probe("steps_checked")
                    cached = sum(1 for j in res.rec.order if res.rec.jobs[j].was_cached)
                    if step > 0 and cached:
                        out.probe("cache_hits_after_edit")
                        out.nontrivial = True
                    history.append({"step": step, "edits": desc, "reused_scheduler": use_shared,
                                    "outcome": repr(outcome_key(res))[:120], "cached_jobs": cached})
                    got = outcome_key(res)
                    if got != want:
                        has_catch = any(n[0] == "catch" for t in prog.tasks
                                        for n in _walk(t.body)) if not avoid_catch else False
                        sig = ("reused-scheduler/" if use_shared else "fresh-scheduler/") + \
                              ("with-catch" if has_catch else "no-catch")
                        # Root cause of the known catch finding: catch() keys its cached decision
                        # by task *names*; it needs a task beneath a catch's guarded expression
                        # whose code was edited during the history (the stale decision may show
                        # directly, or later through call nodes recorded while it was replayed).
                        if has_catch and edited & tasks_under_catch(prog):
                            sig += "/edited-task-under-catch"
                        elif got[0] == "e" and want[0] == "v":
                            sig += "/raises-" + got[1]
                        elif any(h["outcome"] == repr(got)[:120] for h in history[:-1]):
                            sig += "/stale-earlier-outcome"
                        def jobs_of(r):
                            return [(r.rec.jobs[j].task.split(".")[-1],
                                     "cached" if r.rec.jobs[j].was_cached else "ran")
                                    for j in r.rec.order if r.rec.jobs[j].task][:14]

                        out.violate("C02.equals_uncached", sig,
                                    {"step": step, "history": history, "got": repr(got)[:300],
                                     "uncached": repr(want)[:300], "jobs_cached_run": jobs_of(res),
                                     "jobs_uncached_run": jobs_of(fresh)})
                        break
            finally:
                if shared_sched is not None:
                    schedsim.close_backend(shared_sched.backend)
        if last_w is not None:
            out.sample = self.sample(prog, last_w, last_res, note={"history": history})
            out.key = f"{out.key}/{len(history)}"
        return out


def _walk(node):
    from simkit.progs import walk

    return walk(node)


CHECK = C02
