"""C24 Tag history behaves like a key-value multiset (engine D, model-based with SQL faults)."""

from __future__ import annotations

import hashlib
import json
import logging

from simkit import histsim, schedsim
from simkit.choices import Choices
from simkit.dbview import DbView
from simkit.runner import Check, RunOutcome

VALUES = [1, 2, "a", "1", True, None, [1], {"x": 1}, 1.5]


def canon(v) -> str:
    return json.dumps(v, sort_keys=True)


class C24(Check):
    PROPERTY = "C24"
    USES_TEMPLATE_DB = True
    RULE = (
        "seeded histories of <= 15 tag operations exactly as `redun tag add/update/rm` issue them "
        "(record_tags(new=True), record_tags(update=True), delete_tags(pairs, keys)) over 2-3 "
        "entities, 2 keys and a small JSON value set, optionally with one transient "
        "OperationalError per operation (absorbed by db_retry); after every operation get_tags, "
        "projected to distinct pairs, is compared with a set model and the TagEdit graph is checked "
        "for cycles; a case is an operation history; non-trivial = the history contains a delete "
        "or update of an existing pair followed by a re-add"
    )
    ASSUMPTIONS = ["multiplicity of an identical current pair is reported but not asserted: plain "
                   "repeated `add` is idempotent in redun, so the statement's 'multiset' can only "
                   "mean distinct pairs without contradicting itself"]
    COMPONENTS_REAL = ["RedunBackendDb.record_tags / delete_tags / update_tags / get_tags on SQLite",
                       "db_retry"]
    COMPONENTS_STUB = ["entities: tags are attached to synthetic entity ids",
                       "transient SQL errors: SQLAlchemy before_cursor_execute event"]
    EXPECTED_PROBES = ["readds_after_delete", "updates_of_existing_key", "transient_errors_absorbed",
                       "same_pair_twice_in_one_command"]
    QUICK_SECONDS = 25.0

    def setup(self) -> None:
        logging.disable(logging.CRITICAL)
        schedsim.template_db()

    def run_one(self, ch: Choices) -> RunOutcome:
        from redun.backends.base import TagEntity

        out = RunOutcome()
        db = schedsim.fresh_db("tags.db")
        backend = schedsim.open_backend(db, {"db_retries_backoff": "0.0"})
        import redun.backends.db as rdb

        saved_time = rdb.time
        import types
        rdb.time = types.SimpleNamespace(sleep=lambda d: None, time=saved_time.time)
        entities = [f"ent{i}" for i in range(2 + ch.choice(2, "nent"))]
        keys = ["k1", "k2"]
        model: dict[str, set] = {e: set() for e in entities}
        ever: dict[str, set] = {e: set() for e in entities}
        ops = []
        issued: list = []
        faults_on = bool(ch.choice(2, "faults-on"))
        nops = 1 + ch.choice(15, "nops")
        try:
            for step in range(nops):
                e = entities[ch.choice(len(entities), "entity")]
                kind = ch.choice(3, "op")
                npairs = 1 + ch.choice(3, "npairs")
                pairs = [(keys[ch.choice(2, "key")], VALUES[ch.choice(len(VALUES), "value")])
                         for _ in range(npairs)]
                if issued and ch.coin(0.3, "reissue"):
                    # the same command line issued again later (e.g. after its pairs were
                    # removed or superseded in the meantime)
                    pairs = list(issued[ch.choice(len(issued), "reissue-which")])
                    out.probe("reissued_commands")
                issued.append(tuple(pairs))
                plan = None
                if faults_on and ch.coin(0.4, "fault?"):
                    plan = histsim.DbFaultPlan(error_at_stmt=1 + ch.choice(8, "stmt"),
                                               error_repeat=1 + ch.choice(2, "rep"))
                faults = histsim.DbFaults(plan)
                faults.attach(backend.engine)
                try:
                    if kind == 0:
                        op = ("add", e, pairs)
                        backend.record_tags(TagEntity.Value, e, pairs, new=True)
                        for k, v in pairs:
                            p = (k, canon(v))
                            if p in ever[e] and p not in model[e]:
                                out.probe("readds_after_delete")
                            model[e].add(p)
                    elif kind == 1:
                        op = ("update", e, pairs)
                        backend.record_tags(TagEntity.Value, e, pairs, update=True)
                        ks = {k for k, _ in pairs}
                        if any(k in ks for k, _ in model[e]):
                            out.probe("updates_of_existing_key")
                        model[e] = {p for p in model[e] if p[0] not in ks}
                        for k, v in pairs:
                            model[e].add((k, canon(v)))
                    else:
                        by_key = [keys[ch.choice(2, "rm-key")]] if ch.coin(0.4, "rm-by-key") else []
                        op = ("rm", e, pairs, by_key)
                        backend.delete_tags(e, pairs, by_key)
                        gone = {(k, canon(v)) for k, v in pairs}
                        model[e] = {p for p in model[e] if p not in gone and p[0] not in by_key}
                except Exception as err:
                    ops.append(op)
                    backend.session.rollback()
                    kind_name = type(err).__name__
                    dup = len({(k, canon(v)) for k, v in pairs}) < len(pairs)
                    out.violate("C24.operation_succeeds",
                                f"{op[0]}:{kind_name}" + (":same-pair-twice" if dup else "")
                                + (":with-transient-error" if faults.errors_raised else ""),
                                {"ops": ops, "error": repr(err)[:300]})
                    break
                finally:
                    faults.detach()
                if len({(k, canon(v)) for k, v in pairs}) < len(pairs):
                    out.probe("same_pair_twice_in_one_command")
                if faults.errors_raised:
                    out.fault("transient_operational_error", faults.errors_raised)
                    out.probe("transient_errors_absorbed")
                ever[e] |= model[e]
                ops.append(op)
                # compare
                got_all = backend.get_tags(entities)
                for ent in entities:
                    tm = got_all.get(ent)
                    pairs_now = []
                    if tm is not None:
                        for k, v in tm:  # MultiMap iterates (key, value) pairs
                            pairs_now.append((k, canon(v)))
                    got = set(pairs_now)
                    if len(pairs_now) != len(got):
                        out.probe("identical_pair_current_more_than_once")
                    if got != model[ent]:
                        sig = op[0] + ("/with-transient-error" if faults.errors_raised else "")
                        out.violate("C24.current_tags_equal_model", sig,
                                    {"ops": ops, "entity": ent, "real": sorted(got),
                                     "model": sorted(model[ent])})
                        break
                if out.violations:
                    break
                cyc = self.tag_edit_cycle(db, backend)
                if cyc:
                    out.violate("C24.edit_graph_acyclic", op[0], {"ops": ops, "cycle": cyc})
                    break
        finally:
            rdb.time = saved_time
            schedsim.close_backend(backend)
        out.steps = len(ops)
        out.key = hashlib.sha256(repr(ops).encode()).hexdigest()[:20]
        out.digest = out.key
        out.nontrivial = bool(out.probes.get("readds_after_delete") or out.probes.get("updates_of_existing_key"))
        out.sample = {"ops": ops, "final_model": {e: sorted(v) for e, v in model.items()}}
        return out

    @staticmethod
    def tag_edit_cycle(db: str, backend) -> list:
        backend.session.commit()
        view = DbView(db)
        try:
            g: dict = {}
            for r in view.rows("tag_edit"):
                g.setdefault(r["parent_id"], []).append(r["child_id"])
        finally:
            view.close()
        color: dict = {}

        def dfs(u, path):
            color[u] = 1
            for v in g.get(u, []):
                if color.get(v) == 1:
                    return path + [u, v]
                if color.get(v) is None:
                    r = dfs(v, path + [u])
                    if r:
                        return r
            color[u] = 2
            return None

        for u in list(g):
            if color.get(u) is None:
                r = dfs(u, [])
                if r:
                    return [x[:8] for x in r]
        return []


CHECK = C24
