"""C37 The task registry stays consistent (engine D, model-based)."""

from __future__ import annotations

import hashlib
import importlib.util
import linecache
import logging
import os
import sys

from simkit import schedsim
from simkit.choices import Choices
from simkit.progs import RegistrySnapshot
from simkit.runner import Check, RunOutcome

NS = "c37ns"

PRELUDE = '''\
from redun import task
from redun.task import wraps_task


def dbl():
    @wraps_task()
    def _dbl(inner_task):
        def do(*a, **k):
            return 2 * inner_task.func(*a, **k)
        return do
    return _dbl


def tri():
    @wraps_task(wrapper_hash_includes=[3])
    def _tri(inner_task):
        def do(*a, **k):
            return 3 * inner_task.func(*a, **k)
        return do
    return _tri

'''


class C37(Check):
    PROPERTY = "C37"
    RULE = (
        "seeded histories of <= 15 operations through the public API only (define, redefine with "
        "the same or another body, define with an explicit name colliding with an existing task, "
        "wrap with a wraps_task decorator once or twice, re-wrap, redefine a wrapped task) over 3 "
        "names and 3 bodies; after every operation the registry invariants of the statement are "
        "checked; a case is an operation history; non-trivial = it contains a redefinition or a "
        "wrap of an existing name"
    )
    ASSUMPTIONS = ["histories are single-threaded module imports, as task definition always is"]
    COMPONENTS_REAL = ["redun.task.TaskRegistry (add, rename, get, task_hashes)", "redun.task.task",
                       "redun.task.wraps_task"]
    COMPONENTS_STUB = []
    EXPECTED_PROBES = ["redefinitions", "wraps", "double_wraps", "redefine_wrapped"]
    QUICK_SECONDS = 20.0

    def setup(self) -> None:
        logging.disable(logging.CRITICAL)
        self.counter = 0

    def load(self, src: str) -> None:
        self.counter += 1
        path = os.path.join(schedsim.scratch_dir(), f"c37_{os.getpid()}_{self.counter}.py")
        with open(path, "w") as f:
            f.write(PRELUDE + src)
        spec = importlib.util.spec_from_file_location("c37mod", path)
        mod = importlib.util.module_from_spec(spec)
        sys.modules["c37mod"] = mod
        try:
            spec.loader.exec_module(mod)
        finally:
            self._paths.append(path)

    def run_one(self, ch: Choices) -> RunOutcome:
        from redun.task import get_task_registry

        out = RunOutcome()
        self._paths: list[str] = []
        names = ["f", "g", "h"]
        ops = []
        defined: dict[str, int] = {}  # visible name -> wrap depth
        nops = 1 + ch.choice(15, "nops")
        with RegistrySnapshot():
            reg = get_task_registry()
            try:
                for step in range(nops):
                    name = names[ch.choice(3, "name")]
                    body = ch.choice(3, "body")
                    k = ch.choice(6, "op")
                    fn = f"def {name}(x):\n    return x + {body}\n"
                    if k <= 1:
                        src = f"@task(namespace={NS!r})\n{fn}"
                        op = ("define", name, body)
                        depth = 0
                    elif k == 2:
                        other = names[ch.choice(3, "alias-of")]
                        src = (f"@task(namespace={NS!r}, name={other!r})\n"
                               f"def {name}_impl(x):\n    return x + {body}\n")
                        op = ("define-as", other, body)
                        name, depth = other, 0
                    elif k == 3:
                        src = f"@dbl()\n@task(namespace={NS!r})\n{fn}"
                        op = ("define-wrapped", name, body)
                        depth = 1
                        out.probe("wraps")
                    elif k == 4:
                        w2 = ["dbl", "tri"][ch.choice(2, "outer")]
                        src = f"@{w2}()\n@dbl()\n@task(namespace={NS!r})\n{fn}"
                        op = ("define-wrapped-twice", name, body, w2)
                        depth = 2
                        out.probe("wraps")
                        out.probe("double_wraps")
                    else:
                        src = f"@task(namespace={NS!r}, version='1')\n{fn}"
                        op = ("define-versioned", name, body)
                        depth = 0
                    if name in defined:
                        out.probe("redefinitions")
                        if defined[name]:
                            out.probe("redefine_wrapped")
                    ops.append(op)
                    try:
                        self.load(src)
                    except Exception as e:
                        out.violate("C37.definition_succeeds", f"{op[0]}:{type(e).__name__}",
                                    {"ops": ops, "error": repr(e)[:300]})
                        break
                    defined[name] = depth
                    if not self.check(reg, out, ops, defined):
                        break
            finally:
                sys.modules.pop("c37mod", None)
                for p in self._paths:
                    linecache.cache.pop(p, None)
                    try:
                        os.unlink(p)
                    except OSError:
                        pass
        out.steps = len(ops)
        out.key = hashlib.sha256(repr(ops).encode()).hexdigest()[:20]
        out.digest = out.key
        out.nontrivial = bool(out.probes.get("redefinitions"))
        out.sample = {"ops": ops}
        return out

    def check(self, reg, out: RunOutcome, ops, defined) -> bool:
        tasks = list(reg)
        mine = [t for t in tasks if t.namespace.startswith(NS)]
        try:
            hashes = reg.task_hashes
        except AssertionError as e:
            out.violate("C37.task_hashes", "assertion", {"ops": ops, "error": str(e)[:200]})
            return False
        held = {t.hash for t in tasks}
        if hashes != held:
            out.violate("C37.task_hashes", "differs-from-held-tasks",
                        {"ops": ops, "only_in_task_hashes": sorted(hashes - held)[:3],
                         "only_in_tasks": [(t.fullname, t.hash[:8]) for t in tasks
                                           if t.hash in held - hashes][:3]})
            return False
        for t in mine:
            if reg.get(t.fullname) is not t:
                out.violate("C37.found_under_fullname", "get-returns-other",
                            {"ops": ops, "task": t.fullname})
                return False
        for name, depth in defined.items():
            vis = reg.get(f"{NS}.{name}")
            if vis is None:
                out.violate("C37.visible_name", "missing", {"ops": ops, "name": name})
                return False
            # walk the wrapper chain
            cur, seen_depth = vis, 0
            while cur.get_task_option("wrapped_task", None) is not None:
                inner_name = cur.get_task_option("wrapped_task")
                inner = reg.get(inner_name)
                if inner is None:
                    out.violate("C37.wrapped_original", "inner-task-not-registered",
                                {"ops": ops, "name": name, "inner": inner_name})
                    return False
                if not inner.namespace.startswith(NS + "."):
                    out.violate("C37.wrapped_original", "inner-not-in-wrapper-namespace",
                                {"ops": ops, "inner": inner.fullname})
                    return False
                if inner.name != name:
                    out.violate("C37.wrapped_original", "inner-renamed", {"ops": ops, "inner": inner.fullname})
                    return False
                cur = inner
                seen_depth += 1
            if seen_depth != depth:
                out.violate("C37.wrapped_original", f"chain-depth-{seen_depth}-expected-{depth}",
                            {"ops": ops, "name": name})
                return False
        return True


CHECK = C37
