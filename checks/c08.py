"""C08 Resource limits are never exceeded (engine A)."""

from __future__ import annotations

from simkit import enginea, schedsim
from simkit.acheck import EngineACheck
from simkit.choices import Choices
from simkit.progs import ALL_FEATURES, Gen, GenConfig
from simkit.runner import RunOutcome


def limits_config(ch: Choices) -> GenConfig:
    feats = set(ALL_FEATURES) - {"tags"}
    return GenConfig(
        features=feats,
        p_error=0.35,
        multi_error=True,
        modes=("thread", "thread", "process", "async"),
        p_dup=0.3,
        limit_names=("r1", "r2", "r3"),
        p_limit=0.6,
        dict_limits=True,
        task_options=[{"cache_scope": "CSE"}, {"cache_scope": "NONE"}, {"executor": "nope"}],
        p_task_option=0.12,
        max_tasks=8,
        max_fanout=4,
    )


def gen_contention_program(ch: Choices):
    """
    Targeted family: many sibling calls (distinct arguments, so no CSE) of tasks competing for
    one or two scarce resources with capacities 1-3, unit demands 1-2, unlimited tasks that
    *return* limited calls (fresh demand arriving between a wake-up and the restart of the woken
    job), limited parents returning limited children, failing holders.
    """
    from simkit.progs import HEADER, RawProgram

    cap_r = 1 + ch.choice(3, "cap-r")
    cap_q = 1 + ch.choice(2, "cap-q")
    L = [HEADER.format(ns="vp")]
    L.append("@task(limits=['r'])\ndef a(x):\n    return mix('a', x)\n\n")
    L.append(f"@task(limits={{'r': {min(2, cap_r)}}})\ndef a2(x):\n    return mix('a2', x)\n\n")
    L.append("@task(limits=['r', 'q'])\ndef b(x):\n    return mix('b', x)\n\n")
    L.append("@task(limits=['r'])\ndef afail(x):\n    raise ValueError('boom-%s' % x)\n\n")
    L.append("@task()\ndef d(x):\n    return a(x + 100)\n\n")
    L.append("@task(limits=['q'])\ndef dq(x):\n    return a(x + 200)\n\n")
    L.append("@task(limits=['r'])\ndef da(x):\n    return a(x + 300)\n\n")
    L.append("@task()\ndef delay(x):\n    return x\n\n")
    names = ["a", "a", "a2", "b", "d", "dq", "da", "afail"]
    n = 4 + ch.choice(6, "nitems")
    items = []
    has_fail = False
    for i in range(n):
        name = names[ch.choice(len(names), "item")]
        if name == "afail":
            if has_fail and ch.coin(0.5, "one-fail"):
                name = "a"
            has_fail = True
        arg = str(i)
        for _ in range(ch.choice(3, "delays")):
            arg = f"delay({arg})"
        items.append(f"{name}({arg})")
    expr = "[" + ", ".join(items) + "]"
    if has_fail and ch.coin(0.7, "catch-all"):
        expr = f"catch_all({expr})"
    L.append(f"@task()\ndef t0():\n    return {expr}\n")
    limits = {"r": cap_r}
    if ch.coin(0.7, "q-configured"):
        limits["q"] = cap_q
    return RawProgram("".join(L), limits=limits)


class LimitMonitor:
    """Shadow accounting of resource units, independent of Scheduler.limits_used."""

    def __init__(self, out: RunOutcome):
        self.out = out
        self.held: dict[str, int] = {}
        self.by_job: dict[str, dict] = {}
        self.scheds: list = []
        self.unreturnable: dict[str, int] = {}
        self.w = None

    def attach(self, w, rec, sched) -> None:
        self.w = w
        self.scheds.append(sched)
        rec.callbacks.setdefault("submit", []).append(self.on_submit)
        rec.callbacks.setdefault("report", []).append(self.on_report)
        w.monitor_after_event = self.after_event

    def on_submit(self, executor, job) -> None:
        sched = executor._scheduler
        units = dict(job.get_limits())
        self.by_job[job.id] = units
        for name, n in units.items():
            self.held[name] = self.held.get(name, 0) + n
            cap = sched.limits.get(name, 1)
            if self.held[name] > cap:
                self.out.violate(
                    "C08.held_le_limit", "handoff-over-limit",
                    {"resource": name, "held": self.held[name], "limit": cap,
                     "job": job.id[:8], "task": job.task.fullname,
                     "limits_used": dict(sched.limits_used)})
            if self.held[name] == cap:
                self.out.probe("resource_saturated")

    def on_report(self, sched, job, kind) -> None:
        units = self.by_job.pop(job.id, None)
        if units:
            for name, n in units.items():
                self.held[name] -= n
                if self.w.in_shutdown:
                    # reported while the pools shut down, after run() stopped processing events:
                    # the scheduler can no longer return these units in this execution
                    self.unreturnable[name] = self.unreturnable.get(name, 0) + n

    def after_event(self) -> None:
        for sched in self.scheds:
            for name, n in sched.limits_used.items():
                if n < 0:
                    self.out.violate("C08.used_nonnegative", "limits_used-negative",
                                     {"resource": name, "limits_used": n})


class C08(EngineACheck):
    PROPERTY = "C08"
    RULE = (
        "generated programs with list- and dict-form limits over shared resources, failing jobs, "
        "duplicates, cache hits (second execution on the same backend), unknown executors, plus a "
        "targeted contention family (4-9 sibling calls competing for capacities 1-3 with unit "
        "demands 1-2, unlimited tasks returning limited calls, failing holders); seeded "
        "completion orders; shadow unit accounting hand-off -> report; a case is (program, limits, "
        "schedule signature); non-trivial = two jobs in flight at once"
    )
    EXPECTED_PROBES = ["resource_saturated", "jobs_waited_for_limits", "reject_before_executor",
                       "contention_family_programs"]
    QUICK_SECONDS = 35.0

    def run_one(self, ch: Choices) -> RunOutcome:
        out = RunOutcome()
        if ch.choice(2, "program-family") == 1:
            prog = gen_contention_program(ch)
            out.probe("contention_family_programs")
        else:
            prog = Gen(ch, limits_config(ch)).generate()
        db = schedsim.fresh_db("run.db")
        executions = 1 + ch.choice(2, "executions")
        sess = enginea.ProgramSession(prog)
        with sess:
            for ex in range(executions):
                mon = LimitMonitor(out)
                res = enginea.simulate(ch, prog, db_path=db, session=sess, setup=mon.attach,
                                       keep_backend=True)
                sched, rec, w = res.scheduler, res.rec, res.world
                schedsim.close_backend(res.backend)
                self.fill(out, w, prog, extra_key=str(ex))
                self.check_run(out, res, ex, mon)
                if res.outcome[0] == "abort":
                    out.probe("aborted_runs")
                    break
        out.sample = self.sample(prog, w, res)
        return out

    def check_run(self, out: RunOutcome, res, ex: int, mon: "LimitMonitor") -> None:
        sched, rec = res.scheduler, res.rec
        returned = res.outcome[0] == "v"
        for jid in rec.order:
            r = rec.jobs[jid]
            if r.exec_count > 1:
                out.probe("jobs_waited_for_limits")
            # Only non-empty unit sets matter (a job without limits "releases" {} harmlessly).
            r.consumed = [c for c in r.consumed if any(c[0].values())]
            r.released = [c for c in r.released if any(c[0].values())]
            nc, nr = len(r.consumed), len(r.released)
            if r.was_cached and r.handoffs == 0:
                if ex > 0:
                    out.probe("backend_cache_hits")
                if nc:
                    out.violate("C08.cached_holds_nothing", "cached-job-consumed",
                                {"task": r.task, "consumed": r.consumed})
                if nr:
                    out.violate("C08.cached_holds_nothing", "cached-job-released",
                                {"task": r.task, "released": r.released})
                continue
            if nc and r.handoffs == 0 and r.outcome is not None and r.outcome[0] == "e":
                out.probe("reject_before_executor")
            if nc > 1:
                out.violate("C08.consume_once", "consumed-twice", {"task": r.task, "consumed": r.consumed})
            if nr > nc or nr > 1:
                paths = "+".join(sorted(p for _, p in r.released))
                out.violate("C08.release_once", f"released-{nr}x-via-{paths}-consumed-{nc}x",
                            {"task": r.task, "consumed": r.consumed, "released": r.released,
                             "outcome": repr(r.outcome)[:120]})
            if nc == 1 and nr == 1 and r.consumed[0][0] != r.released[0][0]:
                out.violate("C08.release_once", "released-different-units",
                            {"task": r.task, "consumed": r.consumed, "released": r.released})
            if returned and nc == 1 and nr == 0 and r.settled_seq:
                out.violate("C08.release_once", "settled-job-never-released",
                            {"task": r.task, "consumed": r.consumed})
        if returned:
            # Units may only still be held by jobs that were handed to an executor and have not
            # reported yet (an unjoined fork_thread can outlive run()); everything else must
            # have been returned.
            still_held = {k: v for k, v in mon.unreturnable.items() if v}
            left = {k: v for k, v in sched.limits_used.items() if v != 0}
            if left != still_held:
                out.violate("C08.zero_at_end", "limits_used-differs-from-units-of-unreported-jobs",
                            {"limits_used": left, "held_by_unreported_jobs": still_held})
            if still_held:
                out.probe("runs_returning_with_unjoined_jobs_in_flight")
            if sched._jobs_pending_limits:
                out.violate("C08.zero_at_end", "jobs-still-pending-limits",
                            {"n": len(sched._jobs_pending_limits)})


CHECK = C08
