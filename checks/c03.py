"""C03 Shallow cache hits respect code changes in the subtree (engine B, fault enumeration)."""

from __future__ import annotations

from simkit import enginea, histsim, refinterp, schedsim
from simkit.acheck import EngineACheck
from simkit.choices import Choices
from simkit.dbview import DbView
from simkit.histsim import DbFaultPlan
from simkit.progs import ALL_FEATURES, Gen, GenConfig
from simkit.runner import RunOutcome


def shallow_config(ch: Choices) -> GenConfig:
    feats = (set(ALL_FEATURES) | {"noprov"}) - {"forkjoin", "async", "errors", "catch", "catchall",
                                                 "tags"}
    p_error = 0.0
    if ch.coin(0.4, "caught-failures"):
        # failures handled by catch_all beneath shallow parents: failed jobs (and what ran
        # beneath them) belong to the recorded call tree as well.  (catch itself is left out: its
        # own decision cache is the known C02 finding.)
        feats |= {"errors", "catchall"}
        p_error = 0.8
    return GenConfig(
        features=feats, p_error=p_error, modes=("thread", "thread", "process"), p_dup=0.25,
        max_tasks=6, max_depth=2, max_fanout=2, min_tasks=3,
        task_options=[{"check_valid": "shallow"}], p_task_option=0.6,
    )


def gen_caught_failure_program(ch: Choices):
    """
    Targeted family: a shallow-validity task whose subtree contains a job that *failed through a
    child* (mid -> leaf raises), the failure handled by catch_all one or two levels above, next
    to jobs that succeed.  Built directly as a program AST so that the usual edits apply.
    """
    from simkit.progs import Program, TaskDef

    prog = Program()

    def task(idx, params, ret="int", leaf=False, **options):
        t = TaskDef(idx)
        t.params = [(n, "int", None) for n in params]
        t.ret = ret
        t.leaf = leaf
        t.options.update(options)
        prog.tasks.append(t)
        return t

    shallow_at = ch.choice(3, "shallow-at")        # which ancestor carries check_valid=shallow
    deep = bool(ch.choice(2, "mid-depth"))         # mid -> mid2 -> leaf, or mid -> leaf
    t0 = task(0, [], **({"check_valid": "shallow"} if shallow_at == 0 else {}))
    top = task(1, ["a"], ret="list", **({"check_valid": "shallow"} if shallow_at >= 1 else {}))
    mid = task(2, ["a"], **({"check_valid": "shallow"} if shallow_at == 2 and ch.coin(0.5, "mid-shallow") else {}))
    mid2 = task(3, ["a"])
    bad = task(4, ["a"], leaf=True)
    ok = task(5, ["a"], leaf=True)
    rec = task(6, ["vals"], leaf=True)
    rec.params = [("vals", "errlist", None)]
    rec.recover = True
    bad.raises = ("ValueError", "boom-t4")
    bad.body = ("mix", "t4", [("par", "a")])
    ok.body = ("mix", "t5", [("par", "a")])
    rec.body = ("mix", "t6", [("par", "vals")])
    mid2.body = ("op", "+", ("call", 4, [("par", "a")], [], {}), ("lit", 1))
    inner = ("call", 3, [("par", "a")], [], {}) if deep else ("call", 4, [("par", "a")], [], {})
    mid.body = ("op", "+", inner, ("call", 5, [("lit", 2)], [], {})) if ch.coin(0.5, "mid-also-ok") \
        else ("op", "+", inner, ("lit", 3))
    items = [("call", 2, [("par", "a")], [], {}), ("call", 5, [("par", "a")], [], {})]
    if ch.coin(0.5, "second-failing-item"):
        items.append(("call", 2, [("lit", 7)], [], {}))
    top.body = ("catchall", items, "ValueError", 6)
    t0.body = ("idx", ("call", 1, [("lit", ch.choice(3, "arg"))], [], {}), 0) \
        if False else ("applyf", "hsum", [("call", 1, [("lit", ch.choice(3, "arg"))], [], {})])
    prog.features = {"catchall", "errors", "ops", "applyf"}
    return prog



def gen_cse_under_shallow_program(ch: Choices):
    """
    Targeted family: a shallow-validity task `b` calls `helper(x)` (default validity, has
    children) after an equivalent `helper(x)` under another parent has already *finished* in the
    same execution (b takes that other parent's result as an argument), so b's call is served by
    backend CSE; the tasks beneath the shared call still belong to b's recorded subtree.
    """
    from simkit.progs import Program, TaskDef

    prog = Program()

    def task(idx, params, ret="int", leaf=False, **options):
        t = TaskDef(idx)
        t.params = [(n, "int", None) for n in params]
        t.ret = ret
        t.leaf = leaf
        t.options.update(options)
        prog.tasks.append(t)
        return t

    t0 = task(0, [], **({"check_valid": "shallow"} if ch.coin(0.3, "main-shallow") else {}))
    a = task(1, ["x"])
    b = task(2, ["x", "w"], check_valid="shallow")
    helper = task(3, ["x"], **({"executor": "process"} if ch.coin(0.3, "helper-process") else {}))
    mid = task(4, ["x"])
    leaf = task(5, ["x"], leaf=True)
    leaf.body = ("mix", "t5", [("par", "x")])
    mid.body = ("op", "+", ("call", 5, [("par", "x")], [], {}), ("lit", 1))
    deep = bool(ch.choice(2, "helper-depth"))
    helper.body = ("op", "+", ("call", 4 if deep else 5, [("par", "x")], [], {}), ("lit", 2))
    a.body = ("op", "+", ("call", 3, [("par", "x")], [], {}), ("lit", 3))
    b.body = ("op", "+", ("call", 3, [("par", "x")], [], {}), ("par", "w"))
    x = ch.choice(3, "arg")
    first = ("call", 1, [("lit", x)], [], {})
    second = ("call", 2, [("lit", x), ("call", 1, [("lit", x)], [], {})], [], {})
    t0.body = ("applyf", "hsum", [first, second])
    prog.features = {"ops", "applyf"}
    return prog


def subtree_closure_violations(db: str) -> list[tuple]:
    """Every call node lists its own task and everything its recorded children list."""
    view = DbView(db)
    try:
        sub: dict = {}
        for r in view.rows("call_subtree_task"):
            sub.setdefault(r["call_hash"], set()).add(r["task_hash"])
        kids: dict = {}
        for e in view.rows("call_edge"):
            kids.setdefault(e["parent_id"], []).append(e["child_id"])
        bad = []
        for n in view.rows("call_node"):
            s = sub.get(n["call_hash"], set())
            if n["task_hash"] not in s:
                bad.append(("own-task-missing" if s else "no-subtree-rows", n["task_name"]))
                continue
            for c in kids.get(n["call_hash"], []):
                if not sub.get(c, set()) <= s:
                    bad.append(("child-subtree-not-included", n["task_name"]))
                    break
        return bad
    finally:
        view.close()


def sync_records(src_path: str, dst_path: str) -> int:
    from redun.cli import RedunClient

    src = schedsim.open_backend(src_path)
    dst = schedsim.open_backend(dst_path)
    try:
        return RedunClient._sync_records(None, src, dst, None)
    finally:
        schedsim.close_backend(src)
        schedsim.close_backend(dst)


class C03(EngineACheck):
    PROPERTY = "C03"
    LEVEL = "fault_enumeration"
    RULE = (
        "per generated workload (program with check_valid='shallow' tasks over 2-3 levels, one "
        "seeded schedule): recording execution with EVERY commit index as crash point (quick tier: "
        "an evenly spaced subset) or a transient OperationalError at sampled statements, then a "
        "recovery execution, then an edit of one task and a shallow-cached execution whose outcome "
        "must equal the edited program on an empty backend; same after transferring the records "
        "to a second repository; a case is (workload, fault position, repository); non-trivial = "
        "the fault fired and the edited task lies under a shallow task"
    )
    EXPECTED_PROBES = ["crash_points", "edited_runs_checked", "transferred_repositories_checked",
                       "shallow_hits_in_recovery"]
    QUICK_SECONDS = 55.0
    RUN_TIMEOUT = 300.0

    def run_one(self, ch: Choices) -> RunOutcome:
        out = RunOutcome()
        fam = ch.choice(6, "program-family")
        if fam == 5:
            prog = gen_caught_failure_program(ch)
            out.probe("caught_failure_family")
        elif fam == 4:
            prog = gen_cse_under_shallow_program(ch)
            out.probe("cse_under_shallow_family")
        else:
            prog = Gen(ch, shallow_config(ch)).generate()
        sched_seed = ch.choice(1 << 30, "sched-seed")
        seed2 = ch.choice(1 << 30, "sched-seed-2")
        seed3 = ch.choice(1 << 30, "sched-seed-3")
        edited = histsim.clone_program(prog)
        cands = [t for t in histsim.editable_tasks(edited) if t.idx != 0]
        if not cands:
            return out
        victim = cands[ch.choice(len(cands), "edit-task")]
        raising = [t for t in edited.tasks if t.raises and t.idx != 0]
        if raising and ch.coin(0.7, "edit-the-failing-task"):
            # the edit repairs the failing task
            victim = raising[ch.choice(len(raising), "edit-raising")]
            victim.raises = None
            out.probe("edits_of_a_failed_task")
        histsim.apply_variant(victim, 1 + ch.choice(3, "variant"))
        max_points = 8 if self.tier == "quick" else 10 ** 6
        n_err = 3 if self.tier == "quick" else 25

        with enginea.ProgramSession(prog) as sess:
            db0 = schedsim.fresh_db("base.db")
            base, f0 = histsim.run_with_faults(sched_seed, prog, db0, sess)
            self.fill(out, base.world, prog, extra_key="base")
            if base.outcome[0] != "v":
                return out
            fresh_same = refinterp.okey(base.outcome)
            K, S = f0.commits, f0.stmts
            sess.reload(edited)
            e_res, _ = histsim.run_with_faults(seed3, edited, schedsim.fresh_db("edited.db"), sess)
            sess.reload(prog)
            if e_res.outcome[0] != "v":
                return out
            fresh_edited = refinterp.okey(e_res.outcome)
            if fresh_edited == fresh_same:
                out.probe("edit_not_observable")
                return out

            plans = []
            ks = list(range(1, K + 1))
            if len(ks) > max_points:
                start = ch.choice(len(ks), "sweep-offset")
                step = len(ks) / max_points
                ks = sorted({ks[int((start + i * step) % len(ks))] for i in range(max_points)})
            else:
                out.probe("complete_commit_sweeps")
            plans += [("crash", DbFaultPlan(crash_at_commit=k)) for k in ks]
            for _ in range(n_err):
                plans.append(("error", DbFaultPlan(error_at_stmt=1 + ch.choice(max(S, 1), "stmt"),
                                                   error_repeat=1 + ch.choice(2, "rep"))))
            plans.append(("none", DbFaultPlan()))

            for kind, plan in plans:
                db = schedsim.fresh_db("hist.db")
                res, f = histsim.run_with_faults(sched_seed, prog, db, sess, plan=plan)
                if kind == "crash" and not f.crashed:
                    continue
                if kind == "error" and not f.errors_raised:
                    continue
                site = f.crash_site if kind == "crash" else (f.error_site if kind == "error" else "-")
                if kind == "crash":
                    out.probe("crash_points")
                    out.fault("crash_before_commit")
                elif kind == "error":
                    out.fault("transient_operational_error", f.errors_raised)
                out.nontrivial = True
                # (2) recovery, same code
                r2, _ = histsim.run_with_faults(seed2, prog, db, sess)
                if r2.outcome[0] == "abort" or refinterp.okey(r2.outcome) != fresh_same:
                    # belongs to C22; do not double report here
                    out.probe("recovery_mismatch_left_to_C22")
                    continue
                out.probe("shallow_hits_in_recovery",
                          sum(1 for j in r2.rec.order if r2.rec.jobs[j].pre_call_hash))
                bad = subtree_closure_violations(db)
                if bad:
                    out.violate("C03.subtree_rows_complete", f"{bad[0][0]}/{kind}@{site}",
                                {"fault": plan.describe(), "site": site, "nodes": bad[:5]})
                    continue
                # (3)+(4) edit, then shallow-cached execution on the same repository
                sess.reload(edited)
                try:
                    r4, _ = histsim.run_with_faults(seed3, edited, db, sess)
                    out.probe("edited_runs_checked")
                    g4 = refinterp.okey(r4.outcome) if r4.outcome[0] != "abort" else ("abort",)
                    if g4 != fresh_edited:
                        stale = "stale-result" if g4 == fresh_same else "other"
                        out.violate("C03.edit_respected", f"{stale}/{kind}@{site}",
                                    {"fault": plan.describe(), "site": site, "edited_task": victim.name,
                                     "got": repr(g4)[:200], "fresh_edited": repr(fresh_edited)[:200],
                                     "old_value": repr(fresh_same)[:200]})
                        continue
                finally:
                    sess.reload(prog)
                # Transfer variant: pull the (recovered, unedited) records into a second repo.
                if kind in ("none", "crash") and ch.coin(0.5, "transfer?"):
                    db_a = schedsim.fresh_db("repoA.db")
                    ra, _ = histsim.run_with_faults(sched_seed, prog, db_a, sess, plan=plan)
                    histsim.run_with_faults(seed2, prog, db_a, sess)
                    db_b = schedsim.fresh_db("repoB.db")
                    sync_records(db_a, db_b)
                    out.fault("record_transfer")
                    sess.reload(edited)
                    try:
                        rb, _ = histsim.run_with_faults(seed3, edited, db_b, sess)
                        out.probe("transferred_repositories_checked")
                        gb = refinterp.okey(rb.outcome) if rb.outcome[0] != "abort" else ("abort",)
                        if gb != fresh_edited:
                            stale = "stale-result" if gb == fresh_same else "other"
                            out.violate("C03.edit_respected_after_transfer", f"{stale}/{kind}",
                                        {"fault": plan.describe(), "edited_task": victim.name,
                                         "got": repr(gb)[:200],
                                         "fresh_edited": repr(fresh_edited)[:200]})
                    finally:
                        sess.reload(prog)
        out.key = f"{prog.key()}/{sched_seed}/{victim.name}"
        out.sample = self.sample(prog, base.world, base,
                                 note={"commits": K, "statements": S, "edited_task": victim.name})
        return out


CHECK = C03
