"""C09 Executions terminate with every job settled (engine A, bounded liveness)."""

from __future__ import annotations

from checks.c06 import gen_twin_program
from checks.c08 import limits_config
from simkit import enginea
from simkit.acheck import EngineACheck
from simkit.choices import Choices
from simkit.progs import Gen
from simkit.runner import RunOutcome


class C09(EngineACheck):
    PROPERTY = "C09"
    RULE = (
        "generated programs (nested tasks sharing scarce resources, failures, duplicates) under "
        "feasible limit configurations and seeded completion orders; liveness is judged at "
        "quiescence (no queued event, nothing in flight) and by a step cap; a case is (program, "
        "limits, schedule signature); non-trivial = two jobs in flight at once"
    )
    EXPECTED_PROBES = ["jobs_waited_for_limits", "failed_runs", "returned_runs"]
    QUICK_SECONDS = 35.0

    def run_one(self, ch: Choices) -> RunOutcome:
        out = RunOutcome()
        cfg = limits_config(ch)
        cfg.features = set(cfg.features) - {"forkjoin"}  # unjoined forks may outlive run()
        cfg.task_options = [{"cache_scope": "CSE"}, {"cache_scope": "NONE"}]
        if ch.choice(3, "program-family") == 2:
            # twins x limits x opt-outs: nominated waiting jobs that turn out cached/collapsed
            prog = gen_twin_program(ch)
            out.probe("twin_family_programs")
        else:
            prog = Gen(ch, cfg).generate()
        res = enginea.simulate(ch, prog, step_cap=6000)
        w, rec, sched = res.world, res.rec, res.scheduler
        self.fill(out, w, prog)
        kind = res.outcome[0]
        if kind == "abort":
            if res.outcome[1] == "deadlock":
                pend = [(j.task.fullname, dict(j.get_limits())) for j, _ in sched._jobs_pending_limits]
                out.violate("C09.no_deadlock",
                            "pending-limits" if pend else "no-pending-limits",
                            {"pending_limits": pend, "limits_used": dict(sched.limits_used),
                             "limits": dict(sched.limits),
                             "unsettled": [rec.jobs[j].task for j in rec.order
                                           if not rec.jobs[j].finalized][:10]})
            else:
                out.violate("C09.terminates", res.outcome[1], {"steps": w.steps})
        elif kind == "v":
            out.probe("returned_runs")
            for jid in rec.order:
                r = rec.jobs[jid]
                if r.exec_count > 1:
                    out.probe("jobs_waited_for_limits")
                if r.finalized != 1:
                    why = "never-executed" if r.exec_count == 0 else "executed"
                    out.violate("C09.all_settled", f"job-{why}-finalized-{r.finalized}x",
                                {"task": r.task, "exec_count": r.exec_count,
                                 "outcome": repr(r.outcome)[:100]})
                elif r.status not in ("DONE", "CACHED", "FAILED"):
                    out.violate("C09.all_settled", f"final-status-{r.status}", {"task": r.task})
            # (jobs that never executed are reported above, once, under their own signature)
            left = [j for j in sched._jobs if rec.jobs[j.id].exec_count > 0]
            if left:
                out.violate("C09.all_settled", "scheduler-jobs-left",
                            {"jobs": sorted(j.task.fullname for j in left)[:10]})
            if sched._jobs_pending_limits:
                out.violate("C09.all_settled", "pending-limits-left",
                            {"n": len(sched._jobs_pending_limits)})
        else:
            out.probe("failed_runs")
            for jid in rec.order:
                if rec.jobs[jid].exec_count > 1:
                    out.probe("jobs_waited_for_limits")
        out.sample = self.sample(prog, w, res)
        return out


CHECK = C09
