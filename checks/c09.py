"""C09 Executions terminate with every job settled (engine A, bounded liveness)."""

from __future__ import annotations

from checks.c06 import gen_twin_program
from checks.c08 import limits_config
from simkit import enginea
from simkit.acheck import EngineACheck
from simkit.choices import Choices
from simkit.progs import Gen
from simkit.runner import RunOutcome


class C09(EngineACheck):
    PROPERTY = "C09"
    RULE = (
        "generated programs (nested tasks sharing scarce resources, failures, duplicates) under "
        "feasible limit configurations and seeded completion orders; liveness is judged at "
        "quiescence (no queued event, nothing in flight) and by a step cap; a case is (program, "
        "limits, schedule signature); non-trivial = two jobs in flight at once. One case in four "
        "runs two executions on the same Scheduler object: the first may fail with limited jobs "
        "still in flight, then the failing task is repaired and the second execution is judged "
        "the same way"
    )
    EXPECTED_PROBES = ["jobs_waited_for_limits", "failed_runs", "returned_runs",
                       "second_execution_after_failed_one"]
    QUICK_SECONDS = 45.0

    def run_one(self, ch: Choices) -> RunOutcome:
        out = RunOutcome()
        cfg = limits_config(ch)
        cfg.features = set(cfg.features) - {"forkjoin"}  # unjoined forks may outlive run()
        cfg.task_options = [{"cache_scope": "CSE"}, {"cache_scope": "NONE"}]
        if ch.choice(3, "program-family") == 2:
            # twins x limits x opt-outs: nominated waiting jobs that turn out cached/collapsed
            prog = gen_twin_program(ch)
            out.probe("twin_family_programs")
        else:
            prog = Gen(ch, cfg).generate()
        reuse = ch.choice(4, "reuse-scheduler") == 3 and hasattr(prog, "tasks") and prog.tasks
        if not reuse:
            res = enginea.simulate(ch, prog, step_cap=6000)
            self.judge(out, res, prog)
            out.sample = self.sample(prog, res.world, res)
            return out
        # The same Scheduler object runs two executions: the first may fail with jobs still in
        # flight (holding resource units); after the failing task was repaired the second one
        # must terminate and settle like any other.
        from simkit import schedsim

        out.probe("reused_scheduler_cases")
        db = schedsim.fresh_db("reuse.db")
        with enginea.ProgramSession(prog) as sess:
            first = enginea.simulate(ch, prog, db_path=db, session=sess, keep_backend=True,
                                     step_cap=6000)
            self.judge(out, first, prog)
            res = first
            if first.outcome[0] == "e" and not out.violations:
                out.probe("second_execution_after_failed_one")
                for t in prog.tasks:
                    t.raises = None
                sess.reload(prog)
                res = enginea.simulate(ch, prog, db_path=db, session=sess, keep_backend=True,
                                       scheduler=first.scheduler, step_cap=6000)
                self.judge(out, res, prog, label="reused-scheduler/")
            schedsim.close_backend(first.scheduler.backend)
        out.sample = self.sample(prog, res.world, res)
        return out

    def judge(self, out: RunOutcome, res, prog, label: str = "") -> None:
        def V(oracle, sig, detail):  # (the label goes into the detail, not the signature)
            out.violate(oracle, sig, dict(detail, where=label or "first-execution"))

        w, rec, sched = res.world, res.rec, res.scheduler
        self.fill(out, w, prog)
        kind = res.outcome[0]
        if kind == "abort":
            if res.outcome[1] == "deadlock":
                pend = [(j.task.fullname, dict(j.get_limits())) for j, _ in sched._jobs_pending_limits]
                V("C09.no_deadlock",
                            "pending-limits" if pend else "no-pending-limits",
                            {"pending_limits": pend, "limits_used": dict(sched.limits_used),
                             "limits": dict(sched.limits),
                             "unsettled": [rec.jobs[j].task for j in rec.order
                                           if not rec.jobs[j].finalized][:10]})
            else:
                V("C09.terminates", res.outcome[1], {"steps": w.steps})
        elif kind == "v":
            out.probe("returned_runs")
            # A failure handled by catch / catch_all lets the execution go on and return while
            # siblings of the failing expression are still in flight; they are abandoned when run
            # returns (known finding, see DESIGN.md 11.3).
            caught_failure = any(rec.jobs[j].outcome is not None and rec.jobs[j].outcome[0] == "e"
                                 for j in rec.order)
            in_flight_orphans = [j for j in rec.order
                                 if rec.jobs[j].exec_count > 0 and rec.jobs[j].finalized == 0]
            for jid in rec.order:
                r = rec.jobs[jid]
                if r.exec_count > 1:
                    out.probe("jobs_waited_for_limits")
                if r.finalized != 1:
                    why = "never-executed" if r.exec_count == 0 else "executed"
                    sig = f"job-{why}-finalized-{r.finalized}x"
                    if r.finalized == 0 and caught_failure and r.exec_count > 0:
                        sig = "in-flight-when-run-returns/after-caught-failure"
                        out.probe("orphans_after_caught_failure")
                    elif r.finalized == 0 and caught_failure and in_flight_orphans:
                        # never started: its arguments may be waiting for such an orphan
                        sig = "waiting-for-in-flight-orphan/after-caught-failure"
                    V("C09.all_settled", sig,
                                {"task": r.task, "exec_count": r.exec_count,
                                 "handoffs": r.handoffs, "outcome": repr(r.outcome)[:100]})
                elif r.status not in ("DONE", "CACHED", "FAILED"):
                    V("C09.all_settled", f"final-status-{r.status}", {"task": r.task})
            left = [j for j in sched._jobs if rec.jobs[j.id].finalized]
            if left:
                V("C09.all_settled", "scheduler-jobs-left",
                            {"jobs": sorted(j.task.fullname for j in left)[:10]})
            if sched._jobs_pending_limits:
                V("C09.all_settled", "pending-limits-left",
                            {"n": len(sched._jobs_pending_limits)})
        else:
            out.probe("failed_runs")
            for jid in rec.order:
                if rec.jobs[jid].exec_count > 1:
                    out.probe("jobs_waited_for_limits")



CHECK = C09
