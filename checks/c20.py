"""C20 Recorded call graphs are a consistent Merkle record of the run (engine A)."""

from __future__ import annotations

import json

from simkit import enginea, schedsim
from simkit.acheck import EngineACheck
from simkit.choices import Choices
from simkit.dbview import DbView
from simkit.merkle import call_node_hash
from simkit.progs import ALL_FEATURES, Gen, GenConfig
from simkit.runner import RunOutcome

TAG_KEYS = ("k0", "k1")


class TagObserver:
    """Records what apply_tags was asked to do, from outside the scheduler."""

    def __init__(self) -> None:
        self.seen: list[dict] = []

    def attach(self, w, rec, sched) -> None:
        rec.callbacks.setdefault("eval_apply", []).append(self.on_eval)

    def on_eval(self, sched, expr, parent_job, promise) -> None:
        # (never touch attributes of arbitrary expressions: getattr on them is a lazy operator)
        if type(expr).__name__ != "SchedulerExpression" or parent_job is None:
            return
        if expr.task_name != "redun.apply_tags":
            return
        kwargs = dict(expr.kwargs)
        entry = {"job": parent_job.id, "execution": parent_job.execution.id,
                 "tags": list(kwargs.get("tags", [])), "job_tags": list(kwargs.get("job_tags", [])),
                 "execution_tags": list(kwargs.get("execution_tags", [])),
                 "prov": parent_job.recording_provenance(), "value_hash": None, "done": False}
        if entry in self.seen:
            return
        self.seen.append(entry)

        def then(value):
            entry["done"] = True
            if entry["tags"]:
                entry["value_hash"] = sched.type_registry.get_hash(value)
            return value

        promise.then(then, lambda e: None)


class C20(EngineACheck):
    PROPERTY = "C20"
    RULE = (
        "generated programs incl. failures, duplicates (one program in three is a family of "
        "mostly failing twin calls), apply_tags, prov=False / no_prov subtrees, "
        "run 1-2 times on one backend (second run = cached replay) under seeded schedules; after "
        "each execution the whole database is compared with the harness's own record of the job "
        "tree; a case is (program, schedule signatures); non-trivial = two jobs in flight at once"
    )
    EXPECTED_PROBES = ["call_nodes_recomputed", "values_rehashed", "tag_requests_checked",
                       "noprov_jobs", "failed_jobs_checked", "cached_jobs_checked"]
    QUICK_SECONDS = 40.0

    def run_one(self, ch: Choices) -> RunOutcome:
        out = RunOutcome()
        feats = (set(ALL_FEATURES) | {"noprov"}) - {"forkjoin"}
        cfg = GenConfig(
            features=feats, p_error=0.35, modes=("thread", "thread", "process", "async"),
            p_dup=0.3, max_tasks=7,
            task_options=[{"check_valid": "shallow"}, {"prov": False}, {"cache_scope": "CSE"},
                          {"tags": [("kt", 9)]}],
            p_task_option=0.25, limit_names=("r1",), p_limit=0.15,
        )
        if ch.choice(3, "program-family") == 2:
            # twins of a few leaf calls (many of them failing) reached directly, through delay
            # chains and through wrappers: collapsed, CSE-served and failed twins must share one
            # call node
            from checks.c06 import gen_twin_program

            prog = gen_twin_program(ch, p_raise=0.6 if ch.coin(0.5, "failing-twins") else 0.1, groups=True)
            out.probe("twin_family_programs")
        else:
            prog = Gen(ch, cfg).generate()
        db = schedsim.fresh_db("run.db")
        nexec = 1 + ch.choice(2, "nexec")
        sess = enginea.ProgramSession(prog)
        known_nodes: set = set()
        expected_tags: set = set()
        with sess:
            for ex in range(nexec):
                obs = TagObserver()
                res = enginea.simulate(ch, prog, db_path=db, session=sess, setup=obs.attach)
                w, rec = res.world, res.rec
                self.fill(out, w, prog, extra_key=str(ex))
                if res.outcome[0] == "abort":
                    out.probe("aborted_runs")
                    break
                with schedsim.installed(w):
                    self.check_db(out, db, rec, obs, known_nodes, ex, sess, expected_tags)
        out.sample = self.sample(prog, w, res)
        return out

    # ------------------------------------------------------------------
    def check_db(self, out, db, rec, obs, known_nodes, ex, sess, expected_tags) -> None:
        view = DbView(db)
        try:
            fk = view.fk_violations()
            if fk:
                out.violate("C20.foreign_keys", fk[0][0], {"rows": fk[:5]})
            nodes = {r["call_hash"]: r for r in view.rows("call_node")}
            jobs = {r["id"]: r for r in view.rows("job")}
            edges: dict = {}
            for e in view.rows("call_edge"):
                edges.setdefault(e["parent_id"], []).append((e["call_order"], e["child_id"]))
            values = {r["value_hash"]: r for r in view.rows("value")}
            execs = {r["id"]: r for r in view.rows("execution")}
            first_by_hash: dict = {}
            for jid in rec.order:
                r = rec.jobs[jid]
                if not r.prov or r.options is not None and r.options.get("prov") is False:
                    out.probe("noprov_jobs")
                if r.outcome is None or r.exec_count == 0:
                    continue
                row = jobs.get(jid)
                # Was provenance recorded for this job?  (prov is only known from options at
                # hand-off; for cached jobs derive it from the row's existence.)
                if row is None:
                    if r.handoffs and r.prov:
                        out.violate("C20.job_row", "missing", {"task": r.task})
                    continue
                if not r.prov:
                    out.violate("C20.job_row", "recorded-without-provenance", {"task": r.task})
                    continue
                # tree links
                if row["parent_id"] != r.parent:
                    out.violate("C20.job_tree", "parent_id",
                                {"task": r.task, "row": row["parent_id"], "seen": r.parent})
                if row["execution_id"] != r.execution_id:
                    out.violate("C20.job_tree", "execution_id", {"task": r.task})
                if r.parent is None:
                    e = execs.get(r.execution_id)
                    if e is None or e["job_id"] != jid:
                        out.violate("C20.job_tree", "execution-root-job",
                                    {"execution": r.execution_id, "row": e and e["job_id"]})
                adopted = rec.collapsed.get(jid)
                if adopted and rec.jobs[adopted].call_hash and row["call_hash"] != rec.jobs[adopted].call_hash:
                    kind = "failed" if r.outcome[0] == "e" else "done"
                    out.violate("C20.twin_call_node", f"{kind}-collapsed-twin-has-own-call-node",
                                {"task": r.task, "row": row["call_hash"],
                                 "adopted": rec.jobs[adopted].call_hash})
                    continue
                if row["call_hash"] != r.call_hash:
                    out.violate("C20.job_call_hash", "differs-from-settled-job",
                                {"task": r.task, "row": row["call_hash"], "seen": r.call_hash})
                    continue
                if r.call_hash is None:
                    out.violate("C20.job_call_hash", "settled-without-call-hash", {"task": r.task})
                    continue
                node = nodes.get(r.call_hash)
                if node is None:
                    out.violate("C20.call_node", "missing", {"task": r.task})
                    continue
                if node["task_hash"] != r.task_hash or node["args_hash"] != r.args_hash:
                    out.violate("C20.call_node", "task-or-args-hash",
                                {"task": r.task, "node": [node["task_hash"], node["args_hash"]],
                                 "seen": [r.task_hash, r.args_hash]})
                if r.outcome[0] == "e":
                    out.probe("failed_jobs_checked")
                    v = values.get(node["value_hash"])
                    if v is None or v["type"] != "redun.ErrorValue":
                        out.violate("C20.call_node", "failed-job-value-not-error", {"task": r.task})
                if r.pre_call_hash is not None or (r.was_cached and not r.main_resolved):
                    # call hash adopted from the cache / a twin: the node was computed elsewhere.
                    out.probe("cached_jobs_checked")
                    continue
                # Merkle recomputation from the harness's own view of the children.
                # (a child that settles only after its parent was settled - possible when the
                # parent fails first - is legitimately not part of the parent's node)
                kids = []
                for c in self.children_of(rec, jid):
                    # a collapsed twin is replaced, in its parent's child list, by the job it
                    # collapsed into: that job's state is what the parent sees
                    adopted = rec.collapsed.get(c)
                    cr = rec.jobs[adopted] if adopted else rec.jobs[c]
                    if cr.call_hash and 0 < cr.settled_seq < r.settled_seq:
                        kids.append(cr.call_hash)
                    elif cr.call_hash_at_report and cr.reported_seq < r.settled_seq:
                        # a child served by the cache carries its call hash from the moment of
                        # the hit: the parent's node includes it even when the parent fails
                        # before that child's (queued) resolution is processed
                        kids.append(cr.call_hash_at_report)
                expect = call_node_hash(r.task_hash, r.args_hash, node["value_hash"], kids)
                out.probe("call_nodes_recomputed")
                if expect != r.call_hash:
                    out.violate("C20.merkle", "call-hash-mismatch",
                                {"task": r.task, "expected": expect, "recorded": r.call_hash,
                                 "children": kids})
                    continue
                recorded_kids = [k for k in kids if k in nodes]
                got = sorted(edges.get(r.call_hash, []))
                fresh = r.call_hash not in known_nodes and r.call_hash not in first_by_hash
                first_by_hash.setdefault(r.call_hash, jid)
                if fresh:
                    want = [(i, k) for i, k in enumerate(kids) if k in nodes]
                    if got != sorted(want):
                        out.violate("C20.call_edges", "edges-differ-from-children",
                                    {"task": r.task, "edges": got, "children": want})
                elif sorted(k for _, k in got) != sorted(recorded_kids):
                    out.violate("C20.call_edges", "edge-set-differs",
                                {"task": r.task, "edges": got, "children": recorded_kids})
            known_nodes.update(nodes)
            self.check_values(out, db, values, view)
            self.check_tags(out, view, rec, obs, jobs, expected_tags)
        finally:
            view.close()

    @staticmethod
    def children_of(rec, jid):
        """Children as the harness saw them: a collapsed twin replaces the job it collapsed into
        nothing here (each Job object the parent created is its own child)."""
        return rec.jobs[jid].children

    def check_values(self, out, db, values, view) -> None:
        backend = schedsim.open_backend(db)
        try:
            reg = backend.type_registry
            subs: dict = {}
            for s in view.rows("subvalue"):
                subs.setdefault(s["parent_value_hash"], set()).add(s["value_hash"])
            for vh, row in values.items():
                if row["type"] in ("redun.ErrorValue", "redun.Traceback"):
                    out.probe("error_values_not_rehashed")
                    continue
                value, ok = backend.get_value(vh)
                if not ok:
                    out.violate("C20.value_roundtrip", "not-deserializable:" + row["type"], {"hash": vh})
                    continue
                out.probe("values_rehashed")
                h = reg.get_hash(value)
                if h != vh:
                    out.violate("C20.value_roundtrip", "hash-differs:" + row["type"],
                                {"key": vh, "rehash": h, "value": repr(value)[:200]})
                want = {reg.get_hash(sv) for sv in reg.iter_subvalues(value)} if hasattr(reg, "iter_subvalues") else None
                if want is not None and want != subs.get(vh, set()):
                    out.violate("C20.subvalues", "links-differ:" + row["type"],
                                {"value": repr(value)[:200], "rows": sorted(subs.get(vh, set())),
                                 "expected": sorted(want)})
        finally:
            schedsim.close_backend(backend)

    def check_tags(self, out, view, rec, obs, jobs, expected_all) -> None:
        tags = view.rows("tag")
        have = {(t["entity_type"], t["entity_id"], t["key"], json.loads(t["value"]))
                for t in tags if t["key"] in TAG_KEYS}
        have_kt = {(t["entity_type"], t["entity_id"]) for t in tags
                   if t["key"] == "kt" and json.loads(t["value"]) == 9}
        expected = set()
        for e in obs.seen:
            r = rec.jobs.get(e["job"])
            if r is None or not e["done"]:
                continue
            # only jobs that recorded provenance and settled record their tags
            if e["job"] not in jobs or r.outcome is None:
                continue
            out.probe("tag_requests_checked")
            for k, v in e["tags"]:
                expected.add(("Value", e["value_hash"], k, v))
            for k, v in e["job_tags"]:
                expected.add(("Job", e["job"], k, v))
            for k, v in e["execution_tags"]:
                expected.add(("Execution", e["execution"], k, v))
        missing = expected - have
        if missing:
            out.violate("C20.tags", "missing:" + sorted(missing)[0][0],
                        {"missing": sorted(map(list, missing))[:5]})
        expected_all |= expected
        # Requests whose job never settled / recorded may or may not have been flushed.
        maybe = set()
        for e in obs.seen:
            for k, v in e["tags"]:
                if e["value_hash"]:
                    maybe.add(("Value", e["value_hash"], k, v))
            for k, v in e["job_tags"]:
                maybe.add(("Job", e["job"], k, v))
            for k, v in e["execution_tags"]:
                maybe.add(("Execution", e["execution"], k, v))
        expected_all |= maybe
        for t in sorted(have - expected_all, key=repr):
            out.violate("C20.tags", "unexpected:" + t[0], {"tag": list(t)})
        # Task-level `tags` option: on the task and on each of its recorded, settled jobs.
        for jid in rec.order:
            r = rec.jobs[jid]
            if not r.options or r.outcome is None or jid not in jobs:
                continue
            if ("kt", 9) in [tuple(x) for x in r.options.get("tags", [])]:
                out.probe("task_tag_jobs_checked")
                if ("Job", jid) not in have_kt:
                    out.violate("C20.tags", "task-option-tag-missing-on-job", {"task": r.task})
                if ("Task", r.task_hash) not in have_kt:
                    out.violate("C20.tags", "task-option-tag-missing-on-task", {"task": r.task})


CHECK = C20
