"""C01 Scheduler evaluation agrees with the graph-reduction semantics (engine A)."""

from __future__ import annotations

from simkit import enginea, refinterp
from simkit.acheck import EngineACheck
from simkit.choices import Choices
from simkit.progs import ALL_FEATURES, Gen, GenConfig
from simkit.runner import RunOutcome


class C01(EngineACheck):
    PROPERTY = "C01"
    RULE = (
        "generated programs over tasks, nested containers, lazy operators, partial tasks, "
        "expression-valued defaults, cond/seq/catch/catch_all/map_/apply_func/fork+join/apply_tags, "
        "local variables holding one lazy expression used as a direct term and again inside staged "
        "seq / cond forms, per-task executor mode thread/process(pickle boundary)/async-with-await, "
        "run on the real "
        "scheduler under two seeded schedules each and compared with the reference interpreter's "
        "admissible outcome set; a case is (program, schedule signature); non-trivial = two jobs "
        "in flight at once"
    )
    EXPECTED_PROBES = ["singleton_outcome_sets", "error_outcomes", "process_mode_jobs",
                       "async_jobs"]
    QUICK_SECONDS = 40.0

    def run_one(self, ch: Choices) -> RunOutcome:
        out = RunOutcome()
        cfg = GenConfig(
            features=set(ALL_FEATURES) | {"condn"} | ({"lets"} if ch.coin(0.5, "lets-feature") else set()),
            p_error=0.4,
            multi_error=bool(ch.choice(4, "multi-error") == 3),
            modes=("thread", "thread", "process", "async"),
            # swarm: some programs re-use the same closed calls heavily (the same expression as a
            # direct term and again inside staged forms of one job)
            p_dup=[0.05, 0.15, 0.5][ch.choice(3, "dup-rate")],
            max_tasks=8,
        )
        prog = Gen(ch, cfg).generate()
        try:
            ref = refinterp.Ref(prog).run()
        except refinterp.Loose:
            ref = None
            out.probe("loose_reference_sets")
        except RecursionError:
            ref = None
            out.probe("loose_reference_sets")
        if ref is not None:
            if len(ref.outs) == 1:
                out.probe("singleton_outcome_sets")
            if ref.errs:
                out.probe("error_outcomes")
        out.probe("process_mode_jobs", sum(1 for t in prog.tasks if t.options.get("executor") == "process"))
        out.probe("async_jobs", sum(1 for t in prog.tasks if t.is_async))
        sess = enginea.ProgramSession(prog)
        outcomes = []
        with sess:
            for k in range(2):
                res = enginea.simulate(ch, prog, session=sess)
                w = res.world
                self.fill(out, w, prog, extra_key=str(k))
                if res.outcome[0] == "abort":
                    out.violate("C01.terminates", res.outcome[1], {"steps": w.steps})
                    break
                key = refinterp.okey(res.outcome)
                outcomes.append(key)
                if ref is not None and key not in ref.keys():
                    out.violate(
                        "C01.outcome_in_reference_set",
                        "value" if res.outcome[0] == "v" else "error:" + type(res.outcome[1]).__name__,
                        {"real": repr(key)[:400], "reference": sorted(map(repr, ref.keys()))[:4]})
                    break
        out.sample = self.sample(prog, w, res)
        return out


CHECK = C01
