"""C31 Value storage location is transparent (engine D, model-based with storage faults)."""

from __future__ import annotations

import hashlib
import logging
import os
import shutil

from simkit import schedsim
from simkit.choices import Choices
from simkit.runner import Check, RunOutcome


class Blob:
    def __init__(self, data):
        self.data = data

    def __eq__(self, other):
        return isinstance(other, Blob) and other.data == self.data

    def __repr__(self):  # (no memory address: the operation log is part of the run's digest)
        return f"Blob({len(self.data)}:{self.data[-6:]})"


class C31(Check):
    PROPERTY = "C31"
    USES_TEMPLATE_DB = True
    RULE = (
        "seeded histories of <= 14 operations: record a generated value under a generated backend "
        "configuration (no value store / value store with min size 0, 200 or 10^6 / max_value_size "
        "small or default; plain values and a FileCache-typed value), restart the backend under "
        "another configuration, record again, read back, drop the offloaded object (lost write), "
        "truncate it (torn write); after every operation every known hash is read back and "
        "compared with a hash->value model; a case is an operation history; non-trivial = a "
        "value was offloaded and a storage fault or a configuration change happened before it "
        "was read"
    )
    ASSUMPTIONS = ["value store and file cache live on a local tmpfs directory",
                   "reading offloaded values requires a value store to be configured (reading "
                   "them with the store switched off is a configuration error and is not generated)"]
    COMPONENTS_REAL = ["RedunBackendDb.record_value / get_value / _get_value_data on SQLite",
                       "redun.backends.value_store.ValueStore", "redun.value.FileCache"]
    COMPONENTS_STUB = ["storage faults: files removed / truncated directly on the tmpfs"]
    EXPECTED_PROBES = ["offloaded_values", "lost_objects", "rerecorded_after_loss", "restarts",
                       "oversize_rejected", "filecache_values"]
    QUICK_SECONDS = 25.0

    def setup(self) -> None:
        logging.disable(logging.CRITICAL)
        schedsim.template_db()
        from redun.value import FileCache

        self.fc_dir = os.path.join(schedsim.scratch_dir(), "filecache")
        os.makedirs(self.fc_dir, exist_ok=True)
        fc_dir = self.fc_dir

        class BlobType(FileCache):
            type = Blob
            type_name = "verif.Blob"
            base_path = fc_dir

        self.BlobType = BlobType

    def gen_value(self, ch: Choices):
        k = ch.choice(7, "value-kind")
        if k == 0:
            return ch.choice(5, "int")
        if k == 1:
            return "s" * [1, 50, 400, 3000][ch.choice(4, "strlen")] + str(ch.choice(3, "tail"))
        if k == 2:
            return [ch.choice(3, "e") for _ in range(ch.choice(4, "len"))] + ["pad" * [1, 100][ch.choice(2, "pad")]]
        if k == 3:
            return {"k": "v" * [1, 300][ch.choice(2, "dv")], "n": ch.choice(3, "dn")}
        if k == 4:
            return b"b" * [0, 10, 500][ch.choice(3, "blen")] + bytes([ch.choice(3, "bt")])
        if k == 5:
            return Blob("blob" * [1, 200][ch.choice(2, "bloblen")] + str(ch.choice(2, "blobtail")))
        return None

    def open(self, db: str, cfg: dict):
        conf = {}
        if cfg["store"] is not None:
            conf["value_store_path"] = self.store_dir
            conf["value_store_min_size"] = str(cfg["store"])
            conf["config_dir"] = schedsim.scratch_dir()
        if cfg["max"] is not None:
            conf["max_value_size"] = str(cfg["max"])
        return schedsim.open_backend(db, conf)

    def gen_cfg(self, ch: Choices) -> dict:
        store = [None, 0, 200, 10 ** 6][ch.choice(4, "store")]
        mx = [None, 1000][ch.choice(2, "max")] if ch.coin(0.3, "small-max") else None
        return {"store": store, "max": mx}

    def run_one(self, ch: Choices) -> RunOutcome:
        from redun.backends.db import RedunDatabaseError

        out = RunOutcome()
        db = schedsim.fresh_db("values.db")
        self.store_dir = os.path.join(schedsim.scratch_dir(), "vstore")
        shutil.rmtree(self.store_dir, ignore_errors=True)
        os.makedirs(self.store_dir)
        for f in os.listdir(self.fc_dir):
            os.unlink(os.path.join(self.fc_dir, f))
        cfg = self.gen_cfg(ch)
        # offloaded values can only be read back with a store configured: once a store was
        # used, later configurations keep one
        backend = self.open(db, cfg)
        model: dict[str, object] = {}
        offloaded: set = set()
        lost: set = set()
        torn: set = set()
        torn_size: dict = {}
        ops = []
        store_used = cfg["store"] is not None
        nops = 2 + ch.choice(13, "nops")
        try:
            for step in range(nops):
                k = ch.choice(8, "op")
                if k <= 3:
                    v = self.gen_value(ch)
                    if isinstance(v, Blob):
                        out.probe("filecache_values")
                    op = ("record", repr(v)[:40], dict(cfg))
                    try:
                        h = backend.record_value(v)
                    except RedunDatabaseError as e:
                        ops.append(op + ("rejected",))
                        out.probe("oversize_rejected")
                        data_len = len(backend.type_registry.get_value(v).serialize()) if not isinstance(v, Blob) else 0
                        limit = cfg["max"] if cfg["max"] is not None else 10 ** 9
                        if not isinstance(v, Blob) and data_len <= limit:
                            out.violate("C31.max_size", "rejected-value-within-limit",
                                        {"ops": ops, "len": data_len, "limit": limit})
                            break
                        continue
                    if cfg["max"] is not None and not isinstance(v, Blob):
                        data_len = len(backend.type_registry.get_value(v).serialize())
                        if data_len > cfg["max"]:
                            out.violate("C31.max_size", "oversize-value-accepted",
                                        {"ops": ops + [op], "len": data_len, "limit": cfg["max"]})
                            break
                    if h in lost:
                        out.probe("rerecorded_after_loss")
                        if self.store_has(h):
                            lost.discard(h)
                    if h in torn and cfg["store"] is not None and not isinstance(v, Blob):
                        import sys as _sys

                        data = backend.type_registry.get_value(v).serialize()
                        if _sys.getsizeof(data) >= cfg["store"]:
                            # the value was just recorded again *through the store* (put() was
                            # called with the full bytes): from here on it is a recorded value
                            # like any other and has to read back
                            out.probe("rerecorded_after_tear_repaired")
                            torn.discard(h)
                            lost.discard(h)
                    model[h] = v
                    # offloaded = the row keeps no bytes (the object in the store is the only copy)
                    if self.store_has(h) and self.row_is_empty(backend, h):
                        offloaded.add(h)
                        out.probe("offloaded_values")
                elif k == 4:
                    from simkit import schedsim as ss

                    ss.close_backend(backend)
                    new = self.gen_cfg(ch)
                    if store_used and new["store"] is None:
                        new["store"] = 0
                    cfg = new
                    store_used = store_used or cfg["store"] is not None
                    backend = self.open(db, cfg)
                    out.probe("restarts")
                    op = ("restart", dict(cfg))
                elif k == 5 and offloaded - lost:
                    cands = sorted(offloaded - lost)
                    h = cands[ch.choice(len(cands), "lose")]
                    os.unlink(self.store_path(h))
                    lost.add(h)
                    out.probe("lost_objects")
                    out.fault("lost_offloaded_object")
                    op = ("lose-object", h[:8])
                elif k == 6 and offloaded - lost - torn and ch.coin(0.5, "tear"):
                    cands = sorted(offloaded - lost - torn)
                    h = cands[ch.choice(len(cands), "tear-which")]
                    p = self.store_path(h)
                    size = os.path.getsize(p)
                    with open(p, "r+b") as f:
                        f.truncate(size // 2)
                    torn.add(h)
                    torn_size[h] = size
                    out.fault("torn_offloaded_object")
                    op = ("tear-object", h[:8])
                else:
                    op = ("read-all",)
                ops.append(op)
                # ---- read everything back ----------------------------------------------
                if cfg["store"] is None and offloaded:
                    continue  # cannot happen (see above); kept as a guard
                for h, v in sorted(model.items(), key=lambda kv: kv[0]):
                    try:
                        got, ok = backend.get_value(h)
                    except Exception as e:
                        if h in torn:
                            # The statement asks of damaged objects only that they never read as
                            # a different value; failing loudly is within it.
                            out.probe("torn_object_read_raises")
                            continue
                        out.violate("C31.read_never_raises", type(e).__name__,
                                    {"ops": ops, "hash": h[:8], "error": repr(e)[:200]})
                        break
                    missing = h in lost and h in offloaded
                    if h in torn:
                        # only "never a different value" is required of a torn object
                        if ok and got != v:
                            out.violate("C31.torn_object", "different-value",
                                        {"ops": ops, "hash": h[:8], "got": repr(got)[:80]})
                            break
                        continue
                    if missing:
                        if ok:
                            out.violate("C31.missing_reads_absent", "returned-a-value",
                                        {"ops": ops, "hash": h[:8], "got": repr(got)[:80]})
                            break
                        continue
                    if not ok:
                        out.violate("C31.present_reads_back", "absent",
                                    {"ops": ops, "hash": h[:8], "value": repr(v)[:60],
                                     "offloaded": h in offloaded})
                        break
                    if got != v or type(got) is not type(v):
                        out.violate("C31.present_reads_back", "different-value",
                                    {"ops": ops, "hash": h[:8], "value": repr(v)[:60],
                                     "got": repr(got)[:60]})
                        break
                    if backend.type_registry.get_hash(got) != h:
                        kind = "filecache-value" if isinstance(v, Blob) else "plain-value"
                        out.violate("C31.reads_back_same_hash", kind,
                                    {"ops": ops, "hash": h[:8],
                                     "rehash": backend.type_registry.get_hash(got)[:8]})
                        if kind != "filecache-value":
                            break
                if out.violations:
                    break
        finally:
            schedsim.close_backend(backend)
        out.steps = len(ops)
        out.key = hashlib.sha256(repr(ops).encode()).hexdigest()[:20]
        out.digest = out.key
        out.nontrivial = bool(offloaded) and bool(out.probes.get("restarts") or lost or torn)
        out.sample = {"ops": ops}
        return out

    @staticmethod
    def row_is_empty(backend, h: str) -> bool:
        from redun.backends.db import Value

        row = backend.session.get(Value, h)
        return row is not None and len(row.value) == 0

    def store_path(self, h: str) -> str:
        return os.path.join(self.store_dir, h[:2], h[2:])

    def store_has(self, h: str) -> bool:
        return os.path.exists(self.store_path(h))


CHECK = C31
