"""C28 Dry runs execute nothing and predict the real run (engine B)."""

from __future__ import annotations

import shutil

from simkit import enginea, histsim, proglib, refinterp, schedsim
from simkit.acheck import EngineACheck
from simkit.choices import Choices
from simkit.progs import ALL_FEATURES, Gen, GenConfig
from simkit.runner import RunOutcome


class C28(EngineACheck):
    PROPERTY = "C28"
    RULE = (
        "generated programs (one in four a handle-passing workflow) on backends with a generated history (empty; one full execution; a "
        "partial execution killed at a seeded commit; full execution followed by an edit of one "
        "task); then run(dryrun=True) under a seeded schedule, then a real run on a copy of the "
        "same backend file; a case is (program, history, schedules); non-trivial = the backend "
        "held cached results when the dry run started"
    )
    EXPECTED_PROBES = ["dryruns_completed", "dryruns_stopped_early", "backends_fully_cached",
                       "backends_partially_cached", "backends_after_edit", "handle_programs"]
    QUICK_SECONDS = 30.0

    def run_one(self, ch: Choices) -> RunOutcome:
        out = RunOutcome()
        # (no_prov(...) subtrees and prov=False tasks: jobs that can never be served from the
        # cache, so a dry run that reaches one has to stop there)
        feats = (set(ALL_FEATURES) | {"noprov"}) - {"forkjoin", "async"}
        cfg = GenConfig(features=feats, p_error=0.15, modes=("thread", "thread", "process"),
                        p_dup=0.2, max_tasks=6,
                        task_options=[{"check_valid": "shallow"}, {"cache_scope": "CSE"},
                                      {"prov": False},
                                      {"executor": "nope"}],  # (rejected before any submission)
                        p_task_option=0.25)
        if ch.choice(4, "program-family") == 3:
            # handle-passing workflows: preparing a call forks the handle (a recorded state), which
            # is part of what decides whether the call is cached
            from checks.c07 import gen_handle_program

            prog = gen_handle_program(ch, avoid_known=True)
            out.probe("handle_programs")
        else:
            prog = Gen(ch, cfg).generate()
        hist = ch.choice(4, "history")  # 0 empty, 1 full, 2 partial (crash), 3 full + edit
        db = schedsim.fresh_db("dry.db")
        w = res = None
        with enginea.ProgramSession(prog) as sess:
            if hist in (1, 3):
                enginea.simulate(ch, prog, db_path=db, session=sess)
                out.probe("backends_fully_cached" if hist == 1 else "backends_after_edit")
            elif hist == 2:
                plan = histsim.DbFaultPlan(crash_at_commit=3 + ch.choice(30, "crash-k"))
                histsim.run_with_faults(ch.choice(1 << 30, "s"), prog, db, sess, plan=plan)
                out.probe("backends_partially_cached")
                out.fault("crash_before_commit")
            if hist == 3:
                cands = histsim.editable_tasks(prog) if getattr(prog, "tasks", None) else []
                if cands:
                    histsim.apply_variant(cands[ch.choice(len(cands), "edit")], 1)
                    sess.reload(prog)
            out.nontrivial = hist != 0
            db_real = db + ".real"
            shutil.copyfile(db, db_real)
            # ---- dry run -------------------------------------------------------
            proglib.reset_hits()
            dry = enginea.simulate(ch, prog, db_path=db, session=sess, run_kwargs={"dryrun": True})
            w, res = dry.world, dry
            self.fill(out, w, prog, extra_key=f"dry{hist}")
            handoffs = sum(r.handoffs for r in dry.rec.jobs.values())
            calls = sum(proglib.HITS.values())
            if handoffs:
                out.violate("C28.nothing_submitted", "executor-handoff-during-dryrun",
                            {"handoffs": handoffs, "history": hist})
            if calls:
                out.violate("C28.nothing_executed", "task-function-called-during-dryrun",
                            {"calls": sorted(map(repr, proglib.HITS))[:5], "history": hist})
            if dry.outcome[0] == "abort":
                out.violate("C28.terminates", dry.outcome[1], {"history": hist})
                return out
            # ---- real run on a copy of the backend as it was before the dry run --
            proglib.reset_hits()
            real = enginea.simulate(ch, prog, db_path=db_real, session=sess)
            self.fill(out, real.world, prog, extra_key=f"real{hist}")
            executed = sum(proglib.HITS.values()) + sum(r.handoffs for r in real.rec.jobs.values())
            if dry.outcome[0] == "dry":
                out.probe("dryruns_stopped_early")
                if executed == 0 and real.outcome[0] in ("v", "e"):
                    out.violate("C28.early_stop_means_work", "real-run-executed-nothing",
                                {"history": hist, "real": repr(refinterp.okey(real.outcome))[:200]})
            elif dry.outcome[0] in ("v", "e"):
                out.probe("dryruns_completed")
                if real.outcome[0] == "abort":
                    out.violate("C28.terminates", "real:" + real.outcome[1], {"history": hist})
                elif (dry.outcome[0] == "e" and real.outcome[0] == "e"
                      and sum(1 for t in getattr(prog, "tasks", [])
                              if t.raises or t.options.get("executor") == "nope") >= 2):
                    # several independent failure sources: which error wins is decided by the
                    # schedule, and the two runs have different ones
                    out.probe("both_fail_with_several_failure_sources")
                elif refinterp.okey(real.outcome) != refinterp.okey(dry.outcome):
                    kind = "value" if dry.outcome[0] == "v" else "error"
                    out.violate("C28.predicts_real_run", f"{kind}-differs",
                                {"history": hist, "dry": repr(refinterp.okey(dry.outcome))[:200],
                                 "real": repr(refinterp.okey(real.outcome))[:200]})
        if w is not None:
            out.sample = self.sample(prog, w, res, note={"history": ["empty", "full", "partial",
                                                                     "full+edit"][hist]})
        return out


CHECK = C28
