"""C13 Promises settle once and notify every callback exactly once (engine D, model-based)."""

from __future__ import annotations

from typing import Any, Optional

from simkit.choices import Choices
from simkit.runner import Check, RunOutcome

MAX_PROMISES = 16


class Err(Exception):
    pass


# ---------------------------------------------------------------------------
# Reference promise: the statement, literally.
# ---------------------------------------------------------------------------


REENTRANT = {"seen": False}


class RefPromise:
    def __init__(self) -> None:
        self.state = "pending"
        self.val: Any = None
        self.reactions: list = []  # FIFO of (on_fulfilled, on_rejected, child)
        self.draining = False

    def settle(self, state: str, val: Any) -> None:
        if self.state != "pending":
            return  # first settlement wins
        self.state, self.val = state, val
        self.drain()

    def resolve(self, v: Any) -> None:
        self.settle("fulfilled", v)

    def reject(self, e: Any) -> None:
        self.settle("rejected", e)

    def drain(self) -> None:
        if self.draining or self.state == "pending":
            return
        self.draining = True
        try:
            while self.reactions:  # strictly in registration order
                on_f, on_r, child = self.reactions.pop(0)
                handler = on_f if self.state == "fulfilled" else on_r
                if handler is None:
                    child.settle(self.state, self.val)
                    continue
                try:
                    r = handler(self.val)
                except Exception as e:
                    child.reject(e)
                    continue
                if isinstance(r, RefPromise):
                    r.then(child.resolve, child.reject)  # adoption
                else:
                    child.resolve(r)
        finally:
            self.draining = False

    def then(self, on_f=None, on_r=None) -> "RefPromise":
        child = RefPromise()
        if self.draining:
            # registration on a promise that is in the middle of notifying its callbacks
            # (explicitly from a callback, or implicitly by adopting that very promise)
            REENTRANT["seen"] = True
        self.reactions.append((on_f, on_r, child))
        self.drain()
        return child

    @staticmethod
    def all(ps: list["RefPromise"]) -> "RefPromise":
        out = RefPromise()
        results: list = [None] * len(ps)
        left = [len(ps)]

        def mk(i):
            def ok(v):
                results[i] = v
                left[0] -= 1
                if left[0] == 0:
                    out.resolve(list(results))
            return ok

        for i, p in enumerate(ps):
            p.then(mk(i), out.reject)
        if not ps:
            out.resolve([])
        return out

    @staticmethod
    def wait(ps: list["RefPromise"]) -> "RefPromise":
        out = RefPromise()
        left = [len(ps)]

        def done(_):
            left[0] -= 1
            if left[0] == 0:
                out.resolve(list(ps))

        for p in ps:
            p.then(done, done)
        if not ps:
            out.resolve([])
        return out


# ---------------------------------------------------------------------------
# Two worlds driven by the same symbolic history
# ---------------------------------------------------------------------------


class Side:
    """One implementation (real or reference) with its promise table and callback log."""

    def __init__(self, real: bool):
        self.real = real
        self.table: list = []
        self.log: list[tuple] = []  # (promise index the callback was registered on, cb id, arg key)
        self.reentrant_registration = False
        if real:
            from redun.promise import Promise, wait_promises

            self.P = Promise
            self.wait_promises = wait_promises

    # -- primitives -----------------------------------------------------------
    def new(self, executor: Optional[tuple] = None) -> int:
        if self.real:
            if executor is None:
                p = self.P()
            else:
                p = self.P(self._executor(executor))
        else:
            p = RefPromise()
            if executor is not None:
                try:
                    self._executor(executor)(p.resolve, p.reject)
                except Exception as e:
                    p.reject(e)
        self.table.append(p)
        return len(self.table) - 1

    @staticmethod
    def _executor(spec: tuple):
        kind, v = spec

        def func(resolve, reject):
            if kind == "resolve":
                resolve(v)
            elif kind == "reject":
                reject(Err(f"x{v}"))
            elif kind == "raise":
                raise Err(f"raised{v}")
            elif kind == "both":
                resolve(v)
                reject(Err("late"))

        return func

    def resolve(self, i: int, v: Any) -> None:
        p = self.table[i]
        p.do_resolve(v) if self.real else p.resolve(v)

    def reject(self, i: int, e: Any) -> None:
        p = self.table[i]
        p.do_reject(e) if self.real else p.reject(e)

    def handler(self, owner: int, cb_id: int, spec: Optional[tuple]):
        if spec is None:
            return None
        kind = spec[0]

        def h(arg):
            self.log.append((owner, cb_id, key(arg, self)))
            if kind == "ret":
                return spec[1]
            if kind == "raise":
                raise Err(f"cb{cb_id}")
            if kind == "promise":
                return self.table[spec[1] % len(self.table)]
            if kind == "settle":  # re-entrant settlement of another (or the same) promise
                j = spec[1] % len(self.table)
                if spec[2]:
                    self.resolve(j, spec[3])
                else:
                    self.reject(j, Err(f"re{spec[3]}"))
                return spec[3]
            if kind == "register":  # re-entrant registration on a promise
                # ("self": on the very promise whose callback this is -- it is notifying right
                # now and may still have earlier-registered callbacks waiting)
                j = owner if spec[1] == "self" else spec[1] % len(self.table)
                self.reentrant_registration = True
                if len(self.table) < MAX_PROMISES:
                    self.then(j, ("ret", 100 + cb_id), None, cb_id * 100 + 1)
                return 0
            raise AssertionError(kind)

        return h

    def then(self, i: int, on_f: Optional[tuple], on_r: Optional[tuple], cb_id: int) -> int:
        p = self.table[i]
        q = p.then(self.handler(i, cb_id * 2, on_f), self.handler(i, cb_id * 2 + 1, on_r))
        self.table.append(q)
        return len(self.table) - 1

    def all(self, idxs: list[int]) -> int:
        ps = [self.table[i] for i in idxs]
        q = self.P.all(ps) if self.real else RefPromise.all(ps)
        self.table.append(q)
        return len(self.table) - 1

    def wait(self, idxs: list[int]) -> int:
        ps = [self.table[i] for i in idxs]
        q = self.wait_promises(ps) if self.real else RefPromise.wait(ps)
        self.table.append(q)
        return len(self.table) - 1

    def snapshot(self) -> list[tuple]:
        out = []
        for p in self.table:
            if self.real:
                st = "pending" if p.is_pending else ("fulfilled" if p.is_fulfilled else "rejected")
                val = None if p.is_pending else (p._value if p.is_fulfilled else p._error)
            else:
                st, val = p.state, p.val
            out.append((st, key(val, self) if st != "pending" else None))
        return out


def key(v: Any, side: Side) -> Any:
    if isinstance(v, BaseException):
        return ("err", str(v))
    if isinstance(v, list):
        return ("list",) + tuple(key(x, side) for x in v)
    if isinstance(v, RefPromise) or type(v).__name__ == "Promise":
        try:
            return ("promise", side.table.index(v))
        except ValueError:
            return ("promise", "?")
    return v


def gen_handler(ch: Choices, allow_reentrant: bool) -> Optional[tuple]:
    k = ch.choice(8 if allow_reentrant else 6, "handler")
    if k <= 1:
        return None
    if k <= 3:
        return ("ret", ch.choice(5, "ret"))
    if k == 4:
        return ("raise",)
    if k == 5:
        return ("promise", ch.choice(MAX_PROMISES, "ret-promise"))
    if k == 6:
        return ("settle", ch.choice(MAX_PROMISES, "settle-which"), bool(ch.choice(2, "settle-ok")),
                ch.choice(5, "settle-val"))
    if ch.coin(0.6, "register-on-self"):
        return ("register", "self")
    return ("register", ch.choice(MAX_PROMISES, "register-on"))


# ---------------------------------------------------------------------------
# In-situ monitor: the same invariants on every promise a simulated scheduler run creates.
# ---------------------------------------------------------------------------


class PromiseMonitor:
    """Wraps Promise.then / do_resolve / do_reject for the duration of a scheduler run (recording
    only: handlers are called through, results untouched)."""

    def __init__(self) -> None:
        self.regs: list = []      # [promise, seq, has_f, has_r, fired_f, fired_r, fired_while_pending]
        self.settled: dict = {}   # id(promise) -> (promise, kind, value)
        self.problems: list = []
        self.order: dict = {}     # id(promise) -> last fired registration seq
        self.ignored = 0
        self.notifying: set = set()
        self.reentrant: set = set()

    def __enter__(self):
        from redun.promise import Promise

        self.P = Promise
        self.orig = (Promise.then, Promise.do_resolve, Promise.do_reject)
        mon = self
        o_then, o_res, o_rej = self.orig

        def then(p, resolver=None, rejector=None):
            rec = [p, len(mon.regs), resolver is not None, rejector is not None, 0, 0, False]
            mon.regs.append(rec)
            if id(p) in mon.notifying:
                mon.reentrant.add(id(p))

            def wrap(fn, idx):
                if fn is None:
                    return None

                def w(x):
                    rec[idx] += 1
                    if p.is_pending:
                        rec[6] = True
                    last = mon.order.get(id(p), -1)
                    if rec[1] < last and id(p) not in mon.reentrant:
                        mon.problems.append(("order", "callback fired after a later registration's",
                                             rec[1], last))
                    mon.order[id(p)] = max(last, rec[1])
                    want = p.is_fulfilled if idx == 4 else p.is_rejected
                    if not want:
                        mon.problems.append(("wrong-handler", "fulfil" if idx == 4 else "reject", rec[1]))
                    return fn(x)

                return w

            return o_then(p, wrap(resolver, 4), wrap(rejector, 5))

        def settle(orig, kind):
            def f(p, v):
                first = mon.settled.get(id(p))
                if first is None and p.is_pending:
                    mon.settled[id(p)] = (p, kind, v)
                elif first is not None:
                    mon.ignored += 1
                mon.notifying.add(id(p))
                try:
                    r = orig(p, v)
                finally:
                    mon.notifying.discard(id(p))
                fp, fk, fv = mon.settled.get(id(p), (p, kind, v))
                now = "f" if p.is_fulfilled else "r" if p.is_rejected else "p"
                cur = p._value if now == "f" else p._error
                if now != fk or cur is not fv:
                    mon.problems.append(("first-settlement-lost", fk, now))
                return r

            return f

        Promise.then = then
        Promise.do_resolve = settle(o_res, "f")
        Promise.do_reject = settle(o_rej, "r")
        return self

    def __exit__(self, *a):
        self.P.then, self.P.do_resolve, self.P.do_reject = self.orig

    def finish(self) -> list:
        """End-of-run obligations: settled => every registered callback of the matching kind fired
        exactly once and the other kind never; pending => none fired."""
        probs = list(self.problems)
        for p, seq, has_f, has_r, ff, fr, early in self.regs:
            if early:
                probs.append(("fired-before-settlement", seq))
            if p.is_pending:
                if ff or fr:
                    probs.append(("fired-on-pending", seq))
                continue
            want_f = 1 if (p.is_fulfilled and has_f) else 0
            want_r = 1 if (p.is_rejected and has_r) else 0
            if (ff, fr) != (want_f, want_r):
                kind = "twice" if (ff > want_f or fr > want_r) else "never"
                probs.append((f"callback-{kind}", seq, (ff, fr), (want_f, want_r)))
        return probs


class C13(Check):
    PROPERTY = "C13"
    USES_TEMPLATE_DB = True
    RULE = (
        "seeded histories of <= 25 operations (create with/without executor function, then/catch "
        "registration before or after settlement, do_resolve/do_reject incl. re-entrant calls "
        "from inside callbacks, raising callbacks, callbacks returning pending or settled "
        "promises, Promise.all, wait_promises) applied to redun.promise.Promise and to a reference "
        "promise; states, values and per-promise callback sequences are compared after every "
        "operation; a case is an operation history; non-trivial = at least one callback fired "
        "and one settlement was ignored or one promise was adopted. One run in four instead "
        "monitors the same invariants (settle once, first settlement wins, each registered "
        "callback exactly once, after settlement, in registration order, right handler kind) on "
        "every promise created by the real scheduler while it runs a generated program under a "
        "seeded completion schedule (non-trivial there = two jobs in flight)"
    )
    ASSUMPTIONS = ["single-threaded use, as in the scheduler (the promise is not thread-safe by "
                   "design)"]
    COMPONENTS_REAL = ["redun.promise.Promise", "redun.promise.wait_promises",
                       "redun.scheduler.Scheduler + LocalExecutor + RedunBackendDb (scheduler part)"]
    COMPONENTS_STUB = ["callbacks: symbolic handlers interpreted identically on both sides"]
    EXPECTED_PROBES = ["callbacks_fired", "second_settlements_ignored", "adoptions",
                       "reentrant_histories", "reentrant_bursts", "scheduler_runs",
                       "scheduler_callbacks_fired"]
    QUICK_SECONDS = 25.0

    def setup(self) -> None:
        import logging
        import warnings

        from simkit import schedsim

        logging.disable(logging.CRITICAL)
        warnings.filterwarnings("ignore", category=RuntimeWarning)
        schedsim.template_db()

    def begin_case(self) -> None:
        from simkit import schedsim

        schedsim.reset_generation()

    def run_scheduler(self, ch: Choices) -> RunOutcome:
        """Part 2: the invariants, monitored on every promise of a simulated scheduler run."""
        from simkit import enginea
        from simkit.progs import ALL_FEATURES, Gen, GenConfig, emit

        out = RunOutcome()
        cfg = GenConfig(features=set(ALL_FEATURES), p_error=0.4,
                        multi_error=bool(ch.choice(3, "multi-error") == 2),
                        modes=("thread", "thread", "process", "async"), p_dup=0.2, max_tasks=7)
        prog = Gen(ch, cfg).generate()
        with enginea.ProgramSession(prog) as sess:
            with PromiseMonitor() as mon:
                res = enginea.simulate(ch, prog, session=sess)
        w = res.world
        probs = mon.finish()
        out.probe("scheduler_runs")
        out.probe("scheduler_promises", len({id(r[0]) for r in mon.regs}))
        out.probe("scheduler_callbacks_fired", sum(r[4] + r[5] for r in mon.regs))
        out.probe("second_settlements_ignored", mon.ignored)
        out.steps = w.steps
        out.sim_time = w.clock.elapsed
        out.nontrivial = w.max_inflight >= 2 and bool(mon.regs)
        out.key = prog.key() + "/" + w.sched_sig.hexdigest()[:12]
        out.digest = w.digest()[:24]
        if probs:
            out.violate("C13.scheduler_promises", str(probs[0][0]),
                        {"problems": [repr(x) for x in probs[:5]],
                         "program": emit(prog)[-1500:], "outcome": repr(res.outcome)[:200]})
        out.sample = {"part": "scheduler", "registrations": len(mon.regs),
                      "settled": len(mon.settled), "ignored_settlements": mon.ignored,
                      "program": emit(prog)[-800:]}
        return out

    def run_one(self, ch: Choices) -> RunOutcome:
        if ch.choice(4, "part") == 3:
            return self.run_scheduler(ch)
        out = RunOutcome()
        REENTRANT["seen"] = False
        reentrant = ch.choice(2, "reentrant-mode") == 1
        if reentrant:
            out.probe("reentrant_histories")
        real, ref = Side(True), Side(False)
        ops = []
        nops = 3 + ch.choice(23, "nops")
        cb_counter = 0
        for _ in range(2):
            for s in (real, ref):
                s.new()
            ops.append(("new",))
        planned: list = []
        if reentrant and ch.coin(0.3, "burst"):
            # several callbacks wait on one pending promise, one of them registers a further
            # callback on that same promise while it is being notified; then it settles
            out.probe("reentrant_bursts")
            m = 2 + ch.choice(3, "burst-n")
            who = ch.choice(m, "burst-registrar")
            for i in range(m):
                h = ("register", "self") if i == who else gen_handler(ch, False)
                cb_counter += 1
                planned.append(("then", 0, h, h, cb_counter))
            planned.append((["resolve", "reject"][ch.choice(2, "burst-settle")], 0, 99))
        for step in range(nops):
            n = len(real.table)
            k = ch.choice(10, "op") if not planned else -1
            if planned:
                op = planned.pop(0)
            elif k == 0 and n < MAX_PROMISES:
                op = ("new",)
            elif k == 1 and n < MAX_PROMISES:
                op = ("new_exec", (["resolve", "reject", "raise", "both"][ch.choice(4, "ex-kind")],
                                   ch.choice(5, "ex-val")))
            elif k in (2, 3, 4) and n < MAX_PROMISES:
                cb_counter += 1
                op = ("then", ch.choice(n, "then-on"), gen_handler(ch, reentrant),
                      gen_handler(ch, reentrant), cb_counter)
            elif k in (5, 6):
                # (values are unique per operation, so that the position of every result in a
                # Promise.all list is attributable to one input)
                op = ("resolve", ch.choice(n, "resolve-which"), 100 + len(ops))
            elif k == 7:
                op = ("reject", ch.choice(n, "reject-which"), 100 + len(ops))
            elif k == 8 and n < MAX_PROMISES:
                m = ch.choice(6, "all-n")
                op = ("all", [ch.choice(n, "all-i") for _ in range(m)])
            elif k == 9 and n < MAX_PROMISES:
                m = ch.choice(4, "wait-n")
                op = ("wait", [ch.choice(n, "wait-i") for _ in range(m)])
            else:
                op = ("resolve", ch.choice(n, "resolve-which"), 100 + len(ops))
            ops.append(op)
            before = ref.snapshot()
            for s in (real, ref):
                self.apply(s, op)
            if op[0] in ("resolve", "reject") and before[op[1]][0] != "pending":
                out.probe("second_settlements_ignored")
            a, b = real.snapshot(), ref.snapshot()
            if a != b:
                i = next((i for i in range(min(len(a), len(b))) if a[i] != b[i]), -1)
                out.violate("C13.states", self.sig(op, reentrant, real),
                            {"op_index": len(ops) - 1, "ops": ops, "promise": i,
                             "real": a[i] if i >= 0 else len(a), "model": b[i] if i >= 0 else len(b)})
                break
            if not self.same_callbacks(real, ref, out, op, ops, reentrant):
                break
        out.steps = len(ops)
        out.probe("callbacks_fired", len(ref.log))
        out.probe("adoptions", sum(1 for o in ops if o[0] == "then" and any(
            h and h[0] == "promise" for h in (o[2], o[3]))))
        out.nontrivial = bool(ref.log) and (out.probes.get("second_settlements_ignored", 0) > 0
                                            or out.probes.get("adoptions", 0) > 0)
        out.key = repr(ops)
        out.digest = str(hash(repr((ops, real.log))) % 10 ** 12)
        import hashlib
        out.digest = hashlib.sha256(repr((ops, real.log)).encode()).hexdigest()[:24]
        out.sample = {"ops": ops, "callback_log": real.log[:30]}
        return out

    @staticmethod
    def sig(op: tuple, reentrant: bool, real: Side) -> str:
        tag = op[0]
        if real.reentrant_registration or REENTRANT["seen"]:
            # a callback registered a further callback on a promise from inside a callback
            return "with-reentrant-registration"
        return f"{tag}/reentrant-settle" if reentrant else tag

    def same_callbacks(self, real: Side, ref: Side, out: RunOutcome, op, ops, reentrant) -> bool:
        def per_promise(log):
            d: dict = {}
            for owner, cb, arg in log:
                d.setdefault(owner, []).append((cb, arg))
            return d

        a, b = per_promise(real.log), per_promise(ref.log)
        if a == b:
            return True
        # exactly-once / never-twice first, then order
        ca = sorted((o, cb) for o, cb, _ in real.log)
        cb_ = sorted((o, cb) for o, cb, _ in ref.log)
        kind = "callback-count" if ca != cb_ else "callback-order-or-argument"
        owner = next((o for o in sorted(set(a) | set(b)) if a.get(o) != b.get(o)), None)
        sig = self.sig(op, reentrant, real)
        out.violate("C13.callbacks", sig if sig == "with-reentrant-registration" else f"{kind}:{sig}",
                    {"op_index": len(ops) - 1, "ops": ops, "promise": owner,
                     "real": a.get(owner), "model": b.get(owner)})
        return False

    @staticmethod
    def apply(s: Side, op: tuple) -> None:
        if op[0] == "new":
            s.new()
        elif op[0] == "new_exec":
            s.new(op[1])
        elif op[0] == "then":
            s.then(op[1], op[2], op[3], op[4])
        elif op[0] == "resolve":
            s.resolve(op[1], op[2])
        elif op[0] == "reject":
            s.reject(op[1], Err(f"e{op[2]}"))
        elif op[0] == "all":
            s.all(op[1])
        elif op[0] == "wait":
            s.wait(op[1])


CHECK = C13
