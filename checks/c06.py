"""C06 Each distinct call runs at most once per execution (engine A)."""

from __future__ import annotations

from simkit import enginea
from simkit.acheck import EngineACheck
from simkit.choices import Choices
from simkit.progs import ALL_FEATURES, Gen, GenConfig
from simkit.runner import RunOutcome


class C06(EngineACheck):
    PROPERTY = "C06"
    RULE = (
        "generated duplicate-heavy programs (same closed call planted as sibling, in other "
        "parents, behind seq barriers, behind limits; failing twins; cache_scope variants) run on "
        "the real scheduler under a seeded completion order; a case is (program, schedule "
        "signature); non-trivial = at least two jobs in flight at once"
    )
    EXPECTED_PROBES = ["collapsed_into_running_twin", "twin_served_by_backend_cse",
                       "twin_waited_for_limits"]
    QUICK_SECONDS = 35.0

    def gen_config(self, ch: Choices) -> GenConfig:
        feats = set(ALL_FEATURES) - {"tags", "forkjoin"}
        return GenConfig(
            features=feats,
            p_error=0.3,
            modes=("thread", "thread", "process", "async"),
            p_dup=0.5,
            limit_names=("r1", "r2"),
            p_limit=0.4,
            dict_limits=True,
            task_options=[{"cache_scope": "CSE"}, {"cache_scope": "NONE"}, {"cache": False},
                          {"check_valid": "shallow"}],
            p_task_option=0.2,
            max_tasks=7,
        )

    def run_one(self, ch: Choices) -> RunOutcome:
        out = RunOutcome()
        prog = Gen(ch, self.gen_config(ch)).generate()
        collapsed = []

        def setup(w, rec, sched):
            import redun.scheduler as rs

            orig = rs.Job.collapse

            def collapse(self, other):
                collapsed.append((self.id, other.id))
                return orig(self, other)

            rs.Job.collapse = collapse
            rec._restore_collapse = lambda: setattr(rs.Job, "collapse", orig)

        res = enginea.simulate(ch, prog, setup=setup)
        res.rec._restore_collapse()
        w, rec = res.world, res.rec
        self.fill(out, w, prog)
        if res.outcome[0] == "abort":
            # Deadlock / step cap belongs to C09; here only note it.
            out.probe("aborted_runs")
            out.sample = self.sample(prog, w, res)
            return out

        collapsed_ids = {a for a, _ in collapsed}
        # 1. hand-offs per (eval_hash, context) among jobs that did not opt out.
        groups: dict = {}
        for jid in rec.order:
            r = rec.jobs[jid]
            if r.eval_hash is None:
                continue  # never reached execution (argument failed / workflow stopped)
            groups.setdefault((r.eval_hash, r.context_hash), []).append(r)
        for key, rs_ in groups.items():
            opted_in = []
            for r in rs_:
                opts = r.options
                if r.handoffs and (not r.prov or "NONE" in str(r.cache_scope)):
                    continue
                opted_in.append(r)
            n = sum(r.handoffs for r in opted_in)
            if len(rs_) > 1:
                out.probe("twin_groups")
                if any(r.id in collapsed_ids for r in rs_):
                    out.probe("collapsed_into_running_twin")
                if any(r.was_cached and r.id not in collapsed_ids for r in rs_):
                    out.probe("twin_served_by_backend_cse")
                if any(r.exec_count > 1 for r in rs_):
                    out.probe("twin_waited_for_limits")
            if n > 1:
                waited = any(r.exec_count > 1 for r in opted_in)
                out.violate(
                    "C06.handoff_once",
                    "twin-waited-for-limits" if waited else "plain",
                    {"task": rs_[0].task, "handoffs": n,
                     "jobs": [(r.id[:8], r.handoffs, r.exec_count, r.cache_scope) for r in rs_]},
                )
            outs = {r.outcome for r in opted_in if r.outcome is not None}
            if len(outs) > 1:
                out.violate("C06.twin_outcome", "differs",
                            {"task": rs_[0].task, "outcomes": sorted(map(repr, outs))[:4]})
        # 2. Each distinct expression reached from the same parent job is evaluated once.
        seen: dict = {}
        for jid in rec.order:
            r = rec.jobs[jid]
            if r.expr_hash is None or r.parent is None:
                continue
            k = (r.parent_key, r.expr_hash)
            if k in seen:
                out.violate("C06.expr_once", "same-parent-same-expr",
                            {"task": r.task, "parent": r.parent[:8], "jobs": [seen[k][:8], jid[:8]]})
            seen[k] = jid
        out.sample = self.sample(prog, w, res)
        return out


CHECK = C06
