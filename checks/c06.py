"""C06 Each distinct call runs at most once per execution (engine A)."""

from __future__ import annotations

from simkit import enginea
from simkit.acheck import EngineACheck
from simkit.choices import Choices
from simkit.progs import ALL_FEATURES, HEADER, Gen, GenConfig, RawProgram
from simkit.runner import RunOutcome


def gen_twin_program(ch: Choices, p_raise: float = 0.2, groups: bool = False) -> RawProgram:
    """
    Targeted family: the same few leaf calls reached directly, through delay chains (so that
    they arrive before / while / after their twin runs), through wrappers that opt out
    (prov=False, cache_scope=NONE, cache=False), behind limits and behind seq barriers.
    """
    L = [HEADER.format(ns="vp")]
    nleaf = 1 + ch.choice(2, "nleaf")
    cap = (1 + ch.choice(2, "r1-cap")) if ch.coin(0.7, "r1-configured") else 0
    # swarm: some programs put every leaf behind the limit (so that several twins queue up
    # behind a holder at once), some none
    p_leaf_limit = [0.0, 0.3, 1.0][ch.choice(3, "leaf-limit-mode")]
    for i in range(nleaf):
        opts = []
        if ch.coin(p_leaf_limit, "leaf-limit"):
            opts.append("limits=['r1']")
        if ch.coin(0.15, "leaf-process"):
            opts.append("executor='process'")
        if ch.coin(0.2, "leaf-cse-only"):
            # without the backend cache a twin re-triggered after its sibling finished can only
            # be served by CSE
            opts.append(["cache=False", "cache_scope='CSE'"][ch.choice(2, "leaf-cse-kind")])
        body = f"    hit('leaf{i}', x)\n"
        if ch.coin(p_raise, "leaf-raises"):
            body += f"    raise ValueError('boom-leaf{i}')\n"
        L.append(f"@task({', '.join(opts)})\ndef leaf{i}(x):\n{body}    return mix('leaf{i}', x)\n\n")
    L.append("@task()\ndef delay(x):\n    return x\n\n")
    # takes the whole resource: everything else that needs r1 queues up behind it
    hog_lim = f"{{'r1': {cap}}}" if cap else "['r1']"
    L.append(f"@task(limits={hog_lim})\ndef hog(x):\n    return x\n\n")
    wrappers = [("w_plain", ""), ("w_np", "prov=False"), ("w_none", "cache_scope='NONE'"),
                ("w_cse", "cache=False"), ("w_lim", "limits=['r1']")]
    for name, opt in wrappers:
        for i in range(nleaf):
            L.append(f"@task({opt})\ndef {name}{i}(x):\n    return leaf{i}(x)\n\n")

    def arg():
        c = str(ch.choice(2, "const"))
        for _ in range(ch.choice(4, "delays")):
            c = f"delay({c})"
        return c

    def item():
        i = ch.choice(nleaf, "which-leaf")
        k = ch.choice(9, "item-kind")
        if k == 8:
            return f"hog({ch.choice(3, 'hog-arg')})"
        if k <= 2:
            return f"leaf{i}({arg()})"
        if k == 3:
            return f"no_prov(leaf{i}({arg()}))"
        name = wrappers[k - 3][0] if k - 3 < len(wrappers) else "w_plain"
        return f"{name}{i}({arg()})"

    n = 3 + ch.choice(4, "nitems")
    items = [item() for _ in range(n)]
    if groups:
        # tasks whose raw result is a collection of lazy calls, sharing some members with each
        # other and with t0's own list (recorded collections with common subvalues)
        for j in range(1 + ch.choice(2, "ngroups")):
            members = [item() for _ in range(2 + ch.choice(2, "group-size"))]
            if ch.coin(0.7, "group-shares-member"):
                members.insert(ch.choice(len(members) + 1, "shared-pos"),
                               items[ch.choice(len(items), "shared-item")])
            L.append(f"@task()\ndef grp{j}():\n    return [{', '.join(members)}]\n\n")
            items.insert(ch.choice(len(items) + 1, "group-pos"), f"grp{j}()")
        n = len(items)
    if ch.coin(0.3, "seq-barrier"):
        k = 1 + ch.choice(n - 1, "seq-split")
        expr = f"[seq([{', '.join(items[:k])}]), {', '.join(items[k:])}]"
    else:
        expr = "[" + ", ".join(items) + "]"
    if any("raise" in x for x in L):
        expr = f"catch_all({expr})" if ch.coin(0.5, "wrap-catch-all") else expr
    L.append(f"@task()\ndef t0():\n    return {expr}\n")
    limits = {"r1": cap} if cap else {}
    return RawProgram("".join(L), limits=limits)


class C06(EngineACheck):
    PROPERTY = "C06"
    RULE = (
        "generated duplicate-heavy programs (same closed call planted as sibling, in other "
        "parents, behind seq barriers, behind limits; failing twins; cache_scope variants) run on "
        "the real scheduler under a seeded completion order; a case is (program, schedule "
        "signature); non-trivial = at least two jobs in flight at once"
    )
    EXPECTED_PROBES = ["collapsed_into_running_twin", "twin_served_by_backend_cse",
                       "twin_waited_for_limits", "two_twins_waited_for_limits"]
    QUICK_SECONDS = 35.0

    def gen_config(self, ch: Choices) -> GenConfig:
        feats = (set(ALL_FEATURES) | {"noprov"}) - {"tags", "forkjoin"}
        return GenConfig(
            features=feats,
            p_error=0.3,
            modes=("thread", "thread", "process", "async"),
            p_dup=0.5,
            limit_names=("r1", "r2"),
            p_limit=0.4,
            dict_limits=True,
            task_options=[{"cache_scope": "CSE"}, {"cache_scope": "NONE"}, {"cache": False},
                          {"check_valid": "shallow"}, {"prov": False}],
            p_task_option=0.3,
            max_tasks=7,
        )

    def run_one(self, ch: Choices) -> RunOutcome:
        out = RunOutcome()
        if ch.choice(2, "program-family") == 1:
            prog = gen_twin_program(ch)
            out.probe("twin_family_programs")
        else:
            prog = Gen(ch, self.gen_config(ch)).generate()
        res = enginea.simulate(ch, prog)
        w, rec = res.world, res.rec
        self.fill(out, w, prog)
        if res.outcome[0] == "abort":
            # Deadlock / step cap belongs to C09; here only note it.
            out.probe("aborted_runs")
            out.sample = self.sample(prog, w, res)
            return out

        collapsed_ids = set(rec.collapsed)
        # 1. hand-offs per (eval_hash, context) among jobs that did not opt out.
        groups: dict = {}
        for jid in rec.order:
            r = rec.jobs[jid]
            if r.eval_hash is None:
                continue  # never reached execution (argument failed / workflow stopped)
            groups.setdefault((r.eval_hash, r.context_hash), []).append(r)
        for key, rs_ in groups.items():
            opted_in = []
            for r in rs_:
                opts = r.options
                if r.handoffs and (not r.prov or "NONE" in str(r.cache_scope)):
                    continue
                opted_in.append(r)
            n = sum(r.handoffs for r in opted_in)
            if len(rs_) > 1:
                out.probe("twin_groups")
                if any(r.id in collapsed_ids for r in rs_):
                    out.probe("collapsed_into_running_twin")
                if any(r.was_cached and r.id not in collapsed_ids for r in rs_):
                    out.probe("twin_served_by_backend_cse")
                if any(r.exec_count > 1 for r in rs_):
                    out.probe("twin_waited_for_limits")
                if sum(1 for r in rs_ if r.exec_count > 1) >= 2:
                    out.probe("two_twins_waited_for_limits")
            if n > 1:
                waited = any(r.exec_count > 1 for r in opted_in)
                out.violate(
                    "C06.handoff_once",
                    "twin-waited-for-limits" if waited else "plain",
                    {"task": rs_[0].task, "handoffs": n,
                     "jobs": [(r.id[:8], r.handoffs, r.exec_count, r.cache_scope) for r in rs_]},
                )
            outs = {r.outcome for r in opted_in if r.outcome is not None}
            if len(outs) > 1:
                out.violate("C06.twin_outcome", "differs",
                            {"task": rs_[0].task, "outcomes": sorted(map(repr, outs))[:4]})
        # 2. Each distinct expression reached from the same parent job is evaluated once.
        seen: dict = {}
        for jid in rec.order:
            r = rec.jobs[jid]
            if r.expr_hash is None or r.parent is None:
                continue
            k = (r.parent_key, r.expr_hash)
            if k in seen:
                out.violate("C06.expr_once", "same-parent-same-expr",
                            {"task": r.task, "parent": r.parent[:8], "jobs": [seen[k][:8], jid[:8]]})
            seen[k] = jid
        out.sample = self.sample(prog, w, res)
        return out


CHECK = C06
