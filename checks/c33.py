"""C33 Status filters agree with displayed statuses (engines A/B)."""

from __future__ import annotations

from simkit import enginea, histsim, schedsim
from simkit.acheck import EngineACheck
from simkit.choices import Choices
from simkit.histsim import DbFaultPlan
from simkit.progs import ALL_FEATURES, Gen, GenConfig
from simkit.runner import RunOutcome

STATUSES = ["RUNNING", "CACHED", "FAILED", "DONE"]


class C33(EngineACheck):
    PROPERTY = "C33"
    RULE = (
        "databases produced by 1-3 simulated executions of generated programs (failures, "
        "duplicates served by CSE incl. failed twins, cached replays, and one execution killed at a "
        "seeded commit so that RUNNING jobs remain); for every status the set returned by "
        "CallGraphQuery.filter_job_statuses / filter_execution_statuses is compared with the set "
        "of rows whose displayed status property has that value; a case is (program, schedules, "
        "crash point); non-trivial = the database holds jobs of at least three different statuses"
    )
    EXPECTED_PROBES = ["dbs_with_running_jobs", "dbs_with_cse_failed_jobs", "dbs_with_cached_jobs",
                       "filters_compared"]
    QUICK_SECONDS = 30.0

    def run_one(self, ch: Choices) -> RunOutcome:
        out = RunOutcome()
        feats = set(ALL_FEATURES) - {"forkjoin"}
        cfg = GenConfig(features=feats, p_error=0.5, modes=("thread", "thread", "process"),
                        p_dup=0.5, max_tasks=6,
                        task_options=[{"check_valid": "shallow"}, {"cache_scope": "CSE"}],
                        p_task_option=0.2)
        prog = Gen(ch, cfg).generate()
        db = schedsim.fresh_db("status.db")
        nexec = 1 + ch.choice(3, "nexec")
        crash_exec = ch.choice(nexec + 1, "crash-exec")  # == nexec: no crash
        w = res = None
        with enginea.ProgramSession(prog) as sess:
            for ex in range(nexec):
                plan = None
                if ex == crash_exec:
                    plan = DbFaultPlan(crash_at_commit=2 + ch.choice(25, "crash-k"))
                # a coarse clock (e.g. 15 ms timer resolution): quick jobs start and end at the
                # same recorded instant
                quantum = [0.0, 0.0, 0.016, 1.0][ch.choice(4, "clock-resolution")]

                def coarse(w, rec, sched, q=quantum):
                    w.clock.quantum = q

                if quantum:
                    out.probe("executions_under_coarse_clock")
                res, f = histsim.run_with_faults(ch.choice(1 << 30, "sched"), prog, db, sess, plan=plan,
                                                 extra_setup=coarse)
                w = res.world
                self.fill(out, w, prog, extra_key=str(ex))
                if f.crashed:
                    out.fault("crash_before_commit")
        self.compare(out, db)
        if w is not None:
            out.sample = self.sample(prog, w, res)
        return out

    def compare(self, out: RunOutcome, db: str) -> None:
        from redun.backends.db import Execution, Job
        from redun.backends.db.query import CallGraphQuery

        backend = schedsim.open_backend(db)
        try:
            session = backend.session
            jobs = session.query(Job).all()
            execs = session.query(Execution).all()
            by_status: dict = {s: set() for s in STATUSES}
            kinds = set()
            for j in jobs:
                st = j.status
                by_status.setdefault(st, set()).add(j.id)
                kinds.add(st)
                if st == "FAILED" and j.cached:
                    out.probe("dbs_with_cse_failed_jobs")
            if by_status["RUNNING"]:
                out.probe("dbs_with_running_jobs")
            if by_status["CACHED"]:
                out.probe("dbs_with_cached_jobs")
            out.nontrivial = len(kinds) >= 3
            for s in STATUSES:
                q = CallGraphQuery(session).filter_types(["Job"]).filter_job_statuses([s])
                got = {r.id for r in q.all()}
                out.probe("filters_compared")
                if got != by_status[s]:
                    extra = got - by_status[s]
                    missing = by_status[s] - got
                    smap = {j.id: (j.status, bool(j.cached), j.end_time is not None,
                                   j.call_hash is not None) for j in jobs}
                    kind = ("also-returns-" + "+".join(sorted({smap[i][0] for i in extra}))
                            if extra else "misses-some")
                    out.violate("C33.job_filter", f"{s}:{kind}",
                                {"status": s, "extra": [smap[i] for i in sorted(extra)][:4],
                                 "missing": [smap[i] for i in sorted(missing)][:4]})
            ex_by: dict = {}
            for e in execs:
                ex_by.setdefault(e.status, set()).add(e.id)
            for s in ["RUNNING", "FAILED", "DONE"]:
                q = CallGraphQuery(session).filter_types(["Execution"]).filter_execution_statuses([s])
                got = {r.id for r in q.all()}
                out.probe("filters_compared")
                want = ex_by.get(s, set())
                if got != want:
                    emap = {e.id: (e.status, e.job.status if e.job else None,
                                   bool(e.job.cached) if e.job else None) for e in execs}
                    kind = "also-returns-other" if got - want else "misses-some"
                    out.violate("C33.execution_filter", f"{s}:{kind}",
                                {"status": s, "extra": [emap[i] for i in sorted(got - want)][:4],
                                 "missing": [emap[i] for i in sorted(want - got)][:4]})
        finally:
            schedsim.close_backend(backend)


CHECK = C33
