"""C07 Results and recorded call graph do not depend on timing (engine A)."""

from __future__ import annotations

from simkit import enginea, refinterp, schedsim
from simkit.acheck import EngineACheck
from simkit.choices import Choices
from simkit.dbview import DbView
from simkit.progs import ALL_FEATURES, HEADER, Gen, GenConfig, RawProgram
from simkit.runner import RunOutcome

LIMIT_NAMES = ("r1", "r2")


def gen_handle_program(ch: Choices, avoid_known: bool, ready_only: bool = False) -> RawProgram:
    """A handle-passing workflow: one or two handles forked into several sibling tasks whose
    other arguments become ready at different times; some tasks carry limits."""
    lines = [HEADER.format(ns="vp"), "from simkit.proghandle import VH\n\n"]

    def lim():
        if ch.coin(0.45, "hlimit"):
            names = [n for n in LIMIT_NAMES if ch.coin(0.6, "hlim-name")] or [LIMIT_NAMES[0]]
            return f"limits={names!r}"
        return ""

    nsrc = 2 + ch.choice(2, "nsrc")
    for j in range(nsrc):
        lines.append(f"@task({lim()})\ndef src{j}(x):\n    return mix('src{j}', x)\n\n")
    nstep = 1 + ch.choice(2, "nstep")
    nuse = 1 + ch.choice(2, "nuse")
    for i in range(nstep):
        lines.append(f"@task({lim()})\ndef step{i}(h, x):\n    return h\n\n")
    for i in range(nuse):
        lines.append(f"@task({lim()})\ndef use{i}(h, x):\n    return mix('use{i}', x)\n\n")
    body = []
    handles = ["h0"]
    ints: list[str] = []
    body.append("    h0 = VH('ha')")
    if ch.coin(0.3, "two-handles"):
        body.append("    g0 = VH('hb')")
        handles.append("g0")
    nstmt = 2 + ch.choice(4, "nstmt")
    results = []
    used: dict[str, int] = {}
    lazy_other_arg: dict[str, list] = {}
    for k in range(nstmt):
        h = handles[ch.choice(len(handles), "pick-h")]
        if avoid_known and used.get(h):
            # known finding: a handle passed to several sibling calls gets schedule dependent
            # fork keys; in 'avoid' mode every handle state is passed on at most once
            fresh = [x for x in handles if not used.get(x)]
            if not fresh:
                break
            h = fresh[ch.choice(len(fresh), "pick-fresh-h")]
        used[h] = used.get(h, 0) + 1
        r = 0 if ready_only else ch.choice(3, "arg-kind")
        lazy_other_arg.setdefault(h, []).append(not (r == 0 or (r == 2 and not ints)))
        if r == 0 or (r == 2 and not ints):
            arg = str(ch.choice(5, "lit"))
        elif r == 1:
            arg = f"src{ch.choice(nsrc, 'src')}({ch.choice(5, 'src-arg')})"
        else:
            arg = ints[ch.choice(len(ints), "pick-int")]
        if ch.coin(0.6, "step?"):
            var = f"h{k + 1}"
            body.append(f"    {var} = step{ch.choice(nstep, 'step')}({h}, {arg})")
            handles.append(var)
        else:
            var = f"v{k + 1}"
            body.append(f"    {var} = use{ch.choice(nuse, 'use')}({h}, {arg})")
            ints.append(var)
        results.append(var)
    lines.append("@task()\ndef t0():\n" + "\n".join(body) + "\n    return [" + ", ".join(results) + "]\n")
    prog = RawProgram("".join(lines))
    prog.fanout = any(n > 1 for n in used.values())
    # The known fan-out finding needs sibling consumers of one handle state to *arrive* in a
    # schedule-dependent order, i.e. one of them has another argument that is still being
    # computed.  With ready arguments arrival order is creation order.
    prog.fanout_lazy = any(len(v) > 1 and any(v) for v in lazy_other_arg.values())
    return prog


def graph_dump(db: str) -> dict:
    view = DbView(db)
    try:
        nodes = sorted(r["call_hash"] for r in view.rows("call_node"))
        args: dict = {}
        for a in view.rows("argument"):
            args.setdefault(a["call_hash"], []).append(
                (a["arg_position"], a["arg_key"], a["value_hash"]))
        handles = sorted(h["hash"] for h in view.rows("handle"))
        return {"nodes": nodes, "args": {k: sorted(v, key=repr) for k, v in args.items()},
                "handles": handles,
                "node_tasks": {r["call_hash"]: r["task_name"] for r in view.rows("call_node")}}
    finally:
        view.close()


class C07(EngineACheck):
    PROPERTY = "C07"
    RULE = (
        "each generated program (ordinary failure-free programs, programs failing only inside "
        "catch_all, and handle-passing programs with limited tasks) is executed on fresh backends "
        "under 3-4 (schedule, limit configuration) variants from unlimited to fully serial; the "
        "outcome, the set of call-node hashes, each node's argument hashes and the set of handle "
        "hashes must be equal across variants; a case is (program, variant schedule signatures); "
        "non-trivial = two jobs in flight at once in some variant"
    )
    EXPECTED_PROBES = ["handle_programs", "jobs_waited_for_limits", "variants_compared"]
    QUICK_SECONDS = 50.0

    def run_one(self, ch: Choices) -> RunOutcome:
        out = RunOutcome()
        mode = ch.choice(5, "program-kind")  # 0 handle fan-out allowed; 1,2 chains only; 3 generic
        if mode == 4:
            # twins with children, reached directly / through delays / through wrappers: whether a
            # duplicate is collapsed into its running twin or served from the backend depends on
            # the schedule, the recorded graph must not
            from checks.c06 import gen_twin_program

            prog = gen_twin_program(ch, p_raise=0.0)
            out.probe("twin_family_programs")
            names = LIMIT_NAMES
            shape = "twins"
        elif mode <= 2:
            # (half of the fan-out programs pass only ready arguments beside the handle: their
            # sibling consumers arrive in creation order, which the known finding does not cover)
            prog = gen_handle_program(ch, avoid_known=(mode >= 1),
                                      ready_only=(mode == 0 and ch.coin(0.5, "ready-args-only")))
            out.probe("handle_programs")
            shape = ("handle-fanout" if prog.fanout_lazy else
                     "handle-fanout-ready-args" if prog.fanout else "handle-chain")
            out.probe(shape.replace("-", "_") + "_programs")
            names = LIMIT_NAMES
        else:
            feats = set(ALL_FEATURES) - {"forkjoin", "catch", "errors"}
            cfg = GenConfig(features=feats, p_error=0.0,
                            modes=("thread", "thread", "process", "async"), p_dup=0.2,
                            limit_names=LIMIT_NAMES, p_limit=0.5, max_tasks=7)
            prog = Gen(ch, cfg).generate()
            names = LIMIT_NAMES
            shape = "generic"
        nvar = 3 + ch.choice(2, "nvariants")
        dumps = []
        sess = enginea.ProgramSession(prog)
        with sess:
            for v in range(nvar):
                if v == 0:
                    limits = {n: 100 for n in names}  # unlimited
                elif v == 1:
                    limits = {n: 1 for n in names}  # fully serial per resource
                else:
                    limits = {n: [1, 2, 100][ch.choice(3, "cap")] for n in names}
                db = schedsim.fresh_db(f"run{v}.db")
                res = enginea.simulate(ch, prog, db_path=db, session=sess, limits=limits)
                w, rec = res.world, res.rec
                self.fill(out, w, prog, extra_key=str(v))
                if res.outcome[0] == "abort":
                    out.probe("aborted_runs")
                    out.sample = self.sample(prog, w, res)
                    return out
                waited = sum(1 for j in rec.order if rec.jobs[j].exec_count > 1)
                out.probe("jobs_waited_for_limits", waited)
                d = graph_dump(db)
                d["outcome"] = refinterp.okey(res.outcome)
                d["limits"] = limits
                d["waited"] = waited
                dumps.append(d)
        base = dumps[0]
        for i, d in enumerate(dumps[1:], 1):
            out.probe("variants_compared")
            waited = bool(d["waited"] or base["waited"])
            # A handle handed to several sibling calls is a different root cause (fork keys by
            # order of first arrival) from everything else, so it gets its own signature.
            sig = shape if shape.startswith("handle-fanout") else (
                f"{shape}/" + ("after-limit-wait" if waited else "schedule-only"))
            lims = [base["limits"], d["limits"]]
            if d["outcome"] != base["outcome"]:
                out.violate("C07.outcome", sig, {"a": repr(base["outcome"])[:300],
                                                 "b": repr(d["outcome"])[:300], "limits": lims})
                break
            if base["outcome"][0] == "e":
                # The execution raised (e.g. a lazy division by zero): which jobs got to finish
                # before the workflow stopped is legitimately schedule-dependent, and so is the
                # recorded graph; only the outcome is compared.
                out.probe("failing_programs_outcome_only")
                continue
            diff = None
            if d["handles"] != base["handles"]:
                diff = {"what": "handle hashes",
                        "only_a": sorted(set(base["handles"]) - set(d["handles"]))[:4],
                        "only_b": sorted(set(d["handles"]) - set(base["handles"]))[:4]}
            elif d["nodes"] != base["nodes"]:
                oa = sorted(set(base["nodes"]) - set(d["nodes"]))
                ob = sorted(set(d["nodes"]) - set(base["nodes"]))
                diff = {"what": "call node hashes",
                        "only_a": [(h[:8], base["node_tasks"][h]) for h in oa][:4],
                        "only_b": [(h[:8], d["node_tasks"][h]) for h in ob][:4]}
            elif d["args"] != base["args"]:
                diff = {"what": "argument hashes"}
            if diff:
                diff["limits"] = lims
                out.violate("C07.graph", sig, diff)
                break
        out.sample = self.sample(prog, w, res)
        return out


CHECK = C07
