"""C21 Upstream dataflow of arguments is recorded (engine A)."""

from __future__ import annotations

from simkit import enginea, refinterp
from simkit.acheck import EngineACheck
from simkit.choices import Choices
from simkit.dbview import DbView
from simkit.progs import ALL_FEATURES, Gen, GenConfig
from simkit.runner import RunOutcome


class C21(EngineACheck):
    PROPERTY = "C21"
    RULE = (
        "generated failure-free programs that pass task results into other tasks directly and "
        "through getitem/getattr/operators, containers, cond, seq, catch, apply_tags and default "
        "arguments, run under a seeded schedule; for every call first recorded in the run the "
        "Argument rows (position/key, value hash) are compared with what the task received, and "
        "the ArgumentResult links of each argument must contain every call the reference "
        "interpreter says flows into it and no call outside the ones evaluated within the "
        "argument expression; a case is (program, schedule signature); non-trivial = some "
        "argument has an upstream reached through an operator, container or scheduler task"
    )
    ASSUMPTIONS = EngineACheck.ASSUMPTIONS + [
        "the schedule dimension is incidental (the property quantifies over programs); it is varied "
        "because duplicate expressions copy their bookkeeping at a schedule dependent moment",
        "redun's value hashing is trusted to key argument values",
    ]
    EXPECTED_PROBES = ["calls_checked", "indirect_upstreams", "default_arguments_checked"]
    QUICK_SECONDS = 30.0

    def run_one(self, ch: Choices) -> RunOutcome:
        out = RunOutcome()
        feats = set(ALL_FEATURES) - {"errors", "catchall", "forkjoin", "map", "async", "partial"}
        cfg = GenConfig(features=feats, modes=("thread", "thread", "process"), max_tasks=7,
                        p_dup=0.15)
        prog = Gen(ch, cfg).generate()
        ref = refinterp.Ref(prog)
        ref.track_flow = True
        try:
            ref.run()
        except (refinterp.Loose, RecursionError):
            return out
        res = enginea.simulate(ch, prog)
        w, rec = res.world, res.rec
        self.fill(out, w, prog)
        if res.outcome[0] != "v":
            out.sample = self.sample(prog, w, res)
            return out
        view = DbView(res.db_path)
        try:
            args_by_node: dict = {}
            for a in view.rows("argument"):
                args_by_node.setdefault(a["call_hash"], []).append(a)
            ups: dict = {}
            for r in view.rows("argument_result"):
                ups.setdefault(r["arg_hash"], set()).add(r["result_call_hash"])
            # call id -> call hashes (from the harness's own record)
            by_id: dict = {}
            by_task: dict = {}
            for jid in rec.order:
                r = rec.jobs[jid]
                if r.call_hash:
                    by_task.setdefault(r.task, set()).add(r.call_hash)
                    if r.bound_args is not None:
                        by_id.setdefault((r.task, r.bound_args), set()).add(r.call_hash)
            seen_nodes = set()
            for jid in rec.order:
                r = rec.jobs[jid]
                if not r.handoffs or not r.task.startswith("vp.t") or not r.call_hash:
                    continue
                if r.call_hash in seen_nodes or r.bound_args is None or r.arg_hashes is None:
                    continue
                seen_nodes.add(r.call_hash)
                flows_list = ref.flow_log.get((r.task, r.bound_args))
                if not flows_list:
                    continue
                rows = args_by_node.get(r.call_hash, [])
                out.probe("calls_checked")
                # ---- recorded argument values equal the values received -------------
                got = sorted(((a["arg_position"], a["arg_key"], a["value_hash"]) for a in rows),
                             key=repr)
                t = prog.tasks[int(r.task.split(".t")[1])]
                names = [p[0] for p in t.params]
                npos = len(r.arg_hashes["pos"])
                # how each parameter reached the task: positional, keyword or default
                allowed = []
                for flows in flows_list:
                    want = []
                    for i, h in enumerate(r.arg_hashes["pos"]):
                        want.append((i, None, h))
                    for k, h in r.arg_hashes["kw"].items():
                        want.append((None, k, h))
                    allowed.append(sorted(want, key=repr))
                if got not in allowed:
                    out.violate("C21.argument_rows", "differ-from-received-arguments",
                                {"task": r.task, "rows": got, "received": allowed[0]})
                    break
                # ---- upstream links ------------------------------------------------
                ok_any = False
                problems = []
                for flows in flows_list:
                    bad = None
                    for a in rows:
                        pname = names[a["arg_position"]] if a["arg_position"] is not None else a["arg_key"]
                        must, may = flows.get(pname, (set(), set()))
                        s = ups.get(a["arg_hash"], set())
                        may_hashes = set()
                        for cid in may:
                            may_hashes |= by_task.get(cid[0], set()) if cid[1] is None else by_id.get(cid, set())
                        for cid in must:
                            hs = by_task.get(cid[0], set()) if cid[1] is None else by_id.get(cid, set())
                            if hs and not (hs & s):
                                bad = ("missing-upstream", pname, cid[0])
                                break
                        if bad:
                            break
                        if not s <= may_hashes:
                            bad = ("unexpected-upstream", pname, sorted(s - may_hashes)[0][:8])
                            break
                        if must and a["arg_key"] is None:
                            pass
                    if bad is None:
                        ok_any = True
                        break
                    problems.append(bad)
                if not ok_any:
                    kind, pname, what = problems[0]
                    out.violate("C21.upstream_links", kind,
                                {"task": r.task, "param": pname, "detail": what,
                                 "args": repr(r.bound_args)[:160]})
                    break
                for flows in flows_list[:1]:
                    if any(len(m) > 0 for m, _ in flows.values()):
                        out.probe("indirect_upstreams")
                        out.nontrivial = True
                    if r.arg_hashes["kw"] and any(k not in [n for n in names[:npos]]
                                                  for k in r.arg_hashes["kw"]):
                        out.probe("default_arguments_checked")
        finally:
            view.close()
        out.sample = self.sample(prog, w, res)
        return out


CHECK = C21
