"""C10 Remote-executor monitors never lose a submitted job (engine C, thread simulation)."""

from __future__ import annotations

import logging
import os
import types
from typing import Any, Optional

from simkit import schedsim, threadsim
from simkit.choices import Choices
from simkit.runner import Check, RunOutcome


class FakeTask:
    def __init__(self, name: str):
        self.fullname = name
        self.name = name
        self.namespace = "ns"
        self.script = False
        self.load_module = "fake"
        self.hash = "h" + name

    def get_task_option(self, key, default=None):
        return default


class FakeJob:
    def __init__(self, jid: int):
        self.id = f"job{jid}"
        self.task = FakeTask("ns.t")
        self.args = ((), {})
        self.eval_hash = f"eval{jid}"
        self.args_hash = f"args{jid}"
        self.status = "RUNNING"

    def get_options(self) -> dict:
        return {}

    def get_option(self, key, default=None, as_type=None):
        return default

    def __repr__(self) -> str:
        return self.id


class RecordingScheduler:
    """Stands in for the Scheduler: records what the executor reports."""

    def __init__(self, sim: threadsim.ThreadSim, configdir: str):
        self.sim = sim
        self.reports: list[tuple] = []
        self.config = types.SimpleNamespace(configdir=configdir, get=lambda *a, **k: {})
        self.logger = types.SimpleNamespace(level=logging.INFO)

    def done_job(self, job, result, job_tags=[]):
        self.reports.append(("done", job.id if job is not None else None))
        self.sim.event("done_job", job.id if job is not None else None)

    def reject_job(self, job, error, error_traceback=None, job_tags=[]):
        self.reports.append(("reject", job.id if job is not None else None, repr(error)[:120]))
        self.sim.event("reject_job", job.id if job is not None else None, type(error).__name__)

    def log(self, *a, **k):
        pass

    def add_job_tags(self, job, tags):
        pass


class FakeBackendApi:
    """The container / cloud service: a job completes after a number of polls."""

    def __init__(self, ch: Choices, sim: threadsim.ThreadSim):
        self.ch = ch
        self.sim = sim
        self.jobs: dict[str, dict] = {}
        self.counter = 0

    def submit(self, job) -> str:
        self.counter += 1
        ext = f"ext{self.counter}"
        self.jobs[ext] = {"job": job, "polls_left": self.ch.choice(3, "polls"),
                          "fail": self.ch.coin(0.2, "job-fails")}
        self.sim.event("api-submit", job.id, ext)
        return ext

    def submit_array(self, jobs) -> str:
        self.counter += 1
        ext = f"arr{self.counter}"
        for i, job in enumerate(jobs):
            self.jobs[f"{ext}:{i}"] = {"job": job, "polls_left": self.ch.choice(3, "polls"),
                                       "fail": self.ch.coin(0.2, "job-fails")}
        self.sim.event("api-submit-array", tuple(j.id for j in jobs), ext)
        return ext

    def poll(self, ext: str) -> Optional[str]:
        st = self.jobs[ext]
        if st["polls_left"] > 0:
            st["polls_left"] -= 1
            return None
        return "FAILED" if st["fail"] else "SUCCEEDED"


# ---------------------------------------------------------------------------
# Docker
# ---------------------------------------------------------------------------


def make_docker(sim, ch, scratch: str, api: FakeBackendApi, sched: RecordingScheduler):
    import redun.executors.docker as m
    from redun.config import Config

    saved = {k: getattr(m, k) for k in ("threading", "time", "submit_task", "iter_job_status",
                                        "parse_job_result", "parse_job_error")}
    m.threading = sim.threading_shim()
    m.time = sim.time_shim()

    def submit_task(image, scratch_prefix, job, task, args=(), kwargs={}, job_options={},
                    code_file=None, **kw):
        return {"jobId": api.submit(job)}

    def iter_job_status(scratch_prefix, job_id2job):
        for ext, job in job_id2job.items():
            st = api.poll(ext)
            if st is not None:
                yield {"jobId": ext, "status": st, "logs": "log"}

    def parse_job_result(scratch_prefix, job):
        return 42, True

    def parse_job_error(scratch_prefix, job):
        from redun.utils import pickle_dumps  # noqa: F401
        from redun.scheduler import Traceback

        err = ValueError("remote failure")
        return err, Traceback.from_error(err)

    m.submit_task = submit_task
    m.iter_job_status = iter_job_status
    m.parse_job_result = parse_job_result
    m.parse_job_error = parse_job_error
    interval = ["0.2", "1.0", "5.0"][ch.choice(3, "monitor-interval")]
    cfg = Config({"ex": {"image": "img", "scratch": scratch, "job_monitor_interval": interval,
                         "code_package": "False"}})
    ex = m.DockerExecutor("ex", scheduler=None, config=cfg["ex"])
    ex._scheduler = sched
    ex._default_job_options["volumes"] = []

    def restore():
        for k, v in saved.items():
            setattr(m, k, v)

    return ex, restore, float(interval)


class Patcher:
    def __init__(self):
        self.saved = []

    def set(self, mod, name, value):
        self.saved.append((mod, name, getattr(mod, name)))
        setattr(mod, name, value)

    def restore(self):
        for mod, name, value in reversed(self.saved):
            setattr(mod, name, value)


def _fake_error():
    from redun.scheduler import Traceback

    err = ValueError("remote failure")
    return err, Traceback.from_error(err)


# ---------------------------------------------------------------------------
# AWS Batch
# ---------------------------------------------------------------------------


def make_aws_batch(sim, ch, scratch: str, api: FakeBackendApi, sched: RecordingScheduler):
    import redun.executors.aws_batch as m
    import redun.executors.docker as dm
    import redun.job_array as ja
    from redun.config import Config

    P = Patcher()
    shim_t, shim_time = sim.threading_shim(), sim.time_shim()
    for mod in (m, ja, dm):
        P.set(mod, "threading", shim_t)
        P.set(mod, "time", shim_time)
    P.set(m, "aws_utils", types.SimpleNamespace(
        get_aws_user=lambda *a, **k: "user", get_default_region=lambda: "us-west-2",
        get_aws_client=lambda *a, **k: None))

    def submit_task(image, queue, s3_scratch_prefix, job, a_task, args=(), kwargs={},
                    job_options={}, code_file=None, aws_region=None, array_uuid=None,
                    array_size=0, **kw):
        if array_uuid:
            return {"jobId": api.submit_array(CURRENT_ARRAY["jobs"]), "jobName": "arr"}
        return {"jobId": api.submit(job), "jobName": "single"}

    CURRENT_ARRAY = {"jobs": []}

    def write_array_job_scratch_files(jobs, prefix, array_uuid, include_eval_hash=False, **kw):
        CURRENT_ARRAY["jobs"] = list(jobs)

    def iter_batch_job_status(job_ids, pending_truncate=10, aws_region=None):
        for ext in job_ids:
            st = api.poll(ext)
            yield {"jobId": ext, "status": st if st else "RUNNING", "attempts": []}

    P.set(m, "submit_task", submit_task)
    P.set(m, "write_array_job_scratch_files", write_array_job_scratch_files)
    P.set(m, "iter_batch_job_status", iter_batch_job_status)
    P.set(m, "aws_describe_jobs", lambda ids, aws_region=None: iter([]))
    P.set(m, "get_job_log_stream", lambda job, aws_region=None: None)
    P.set(m, "parse_job_result", lambda prefix, job: (42, True))
    P.set(m, "parse_job_error", lambda prefix, job, batch_job_metadata=None: _fake_error())
    P.set(m, "parse_job_logs", lambda job_id, required=False, aws_region=None: [])
    interval = ["0.2", "1.0", "5.0"][ch.choice(3, "monitor-interval")]
    stale = ["0.05", "0.5", "3.0"][ch.choice(3, "stale-time")]
    cfg = Config({"ex": {"image": "img", "queue": "q", "s3_scratch": scratch,
                         "job_monitor_interval": interval, "job_stale_time": stale,
                         "code_package": "False", "default_batch_tags": "False",
                         "min_array_size": str(2 + ch.choice(3, "min-array")),
                         "max_array_size": "4", "aws_region": "us-west-2"}})
    ex = m.AWSBatchExecutor("ex", scheduler=None, config=cfg["ex"])
    ex._scheduler = sched
    ex._docker_executor._scheduler = sched
    ex.get_jobs = lambda statuses=None: iter([])
    return ex, P.restore, float(interval) + float(stale)


# ---------------------------------------------------------------------------
# Kubernetes (submit / start / monitor / stop control flow real; status processing stubbed)
# ---------------------------------------------------------------------------


def make_k8s(sim, ch, scratch: str, api: FakeBackendApi, sched: RecordingScheduler):
    import redun.executors.k8s as m
    import redun.job_array as ja
    from redun.config import Config

    P = Patcher()
    shim_t, shim_time = sim.threading_shim(), sim.time_shim()
    for mod in (m, ja):
        P.set(mod, "threading", shim_t)
        P.set(mod, "time", shim_time)

    class FakeClient:
        def version(self):
            return (1, 25)

    P.set(m, "k8s_utils", types.SimpleNamespace(
        K8SClient=FakeClient, DEFAULT_JOB_PREFIX="redun-job",
        create_namespace=lambda *a, **k: None, create_k8s_secret=lambda *a, **k: None))
    CURRENT_ARRAY = {"jobs": []}

    def meta(name):
        return types.SimpleNamespace(metadata=types.SimpleNamespace(name=name, uid="uid-" + name))

    def submit_task(client, image, namespace, scratch_prefix, job, a_task, args=(), kwargs={},
                    job_options={}, code_file=None, array_uuid=None, array_size=0, **kw):
        if array_uuid:
            return meta(api.submit_array(CURRENT_ARRAY["jobs"]))
        return meta(api.submit(job))

    def write_array_job_scratch_files(jobs, prefix, array_uuid, include_eval_hash=False, **kw):
        CURRENT_ARRAY["jobs"] = list(jobs)

    P.set(m, "submit_task", submit_task)
    P.set(m, "write_array_job_scratch_files", write_array_job_scratch_files)
    P.set(m, "k8s_describe_jobs", lambda client, names, namespace=None: [meta(n) for n in names])
    interval = ["0.2", "1.0", "5.0"][ch.choice(3, "monitor-interval")]
    stale = ["0.05", "0.5", "3.0"][ch.choice(3, "stale-time")]
    cfg = Config({"ex": {"image": "img", "scratch": scratch, "type": "k8s",
                         "job_monitor_interval": interval, "job_stale_time": stale,
                         "code_package": "False", "default_k8s_labels": "False",
                         "create_namespace": "False", "import_aws_secrets": "False",
                         "min_array_size": str(2 + ch.choice(3, "min-array")),
                         "max_array_size": "4"}})
    ex = m.K8SExecutor("ex", scheduler=None, config=cfg["ex"])
    ex._scheduler = sched
    ex.gather_inflight_jobs = lambda: None
    ex._setup_secrets = lambda: None

    def process(k8s_job):
        # stub of _process_k8s_job_status: report finished jobs, keep the rest pending
        name = k8s_job.metadata.name
        entry = ex.pending_k8s_jobs.get(name)
        if entry is None:
            return
        if isinstance(entry, dict):
            # Like the real code, an array is resolved only once the whole K8S job is terminal
            # (all indices finished); until then the entry stays.
            children = sorted(k for k in api.jobs if k.startswith(name + ":"))
            if len(entry) < len(children):
                return  # still being filled by the submitting thread
            states = {k: api.poll(k) for k in children}
            if any(v is None for v in states.values()):
                return
            for k in children:
                i = int(k.rsplit(":", 1)[1])
                job = entry.pop(i, None)
                if job is None:
                    continue
                (sched.done_job(job, 42) if states[k] == "SUCCEEDED"
                 else sched.reject_job(job, ValueError("remote failure")))
            ex.pending_k8s_jobs.pop(name, None)
        else:
            st = api.poll(name)
            if st is None:
                return
            ex.pending_k8s_jobs.pop(name, None)
            (sched.done_job(entry, 42) if st == "SUCCEEDED"
             else sched.reject_job(entry, ValueError("remote failure")))

    ex._process_k8s_job_status = process
    return ex, P.restore, float(interval) + float(stale)


# ---------------------------------------------------------------------------
# GCP Batch
# ---------------------------------------------------------------------------


def make_gcp_batch(sim, ch, scratch: str, api: FakeBackendApi, sched: RecordingScheduler):
    import redun.executors.docker as dm
    import redun.executors.gcp_batch as m
    import redun.job_array as ja
    from google.api_core.exceptions import NotFound
    from google.cloud.batch_v1 import TaskStatus
    from redun.config import Config

    P = Patcher()
    shim_t, shim_time = sim.threading_shim(), sim.time_shim()
    for mod in (m, ja, dm):
        P.set(mod, "threading", shim_t)
        P.set(mod, "time", shim_time)
    CURRENT_ARRAY = {"jobs": []}
    not_visible: dict = {}

    def batch_submit(client=None, job_name="", task_count=1, **kw):
        if job_name.startswith(m.REDUN_ARRAY_JOB_PREFIX):
            jobs = CURRENT_ARRAY["jobs"]
            ext = api.submit_array(jobs)
            # array children are polled as "<ext>/tasks/<i>"; register them under that name too
            for i in range(len(jobs)):
                api.jobs[f"{ext}/tasks/{i}"] = api.jobs.pop(f"{ext}:{i}")
                not_visible[f"{ext}/tasks/{i}"] = ch.choice(2, "gcp-not-visible")
            n = len(jobs)
        else:
            ext = api.submit(kw.get("_job") or types.SimpleNamespace(id=job_name))
            api.jobs[f"{ext}/tasks/0"] = api.jobs.pop(ext)
            not_visible[f"{ext}/tasks/0"] = ch.choice(2, "gcp-not-visible")
            n = 1
        return types.SimpleNamespace(uid="uid-" + ext,
                                     task_groups=[types.SimpleNamespace(name=ext, task_count=n)])

    def get_task(client=None, task_name=""):
        if not_visible.get(task_name, 0) > 0:
            not_visible[task_name] -= 1
            raise NotFound("task not instantiated yet")
        st = api.poll(task_name)
        state = {None: TaskStatus.State.RUNNING, "SUCCEEDED": TaskStatus.State.SUCCEEDED,
                 "FAILED": TaskStatus.State.FAILED}[st]
        return types.SimpleNamespace(name=task_name, status=types.SimpleNamespace(state=state))

    def write_array_job_scratch_files(jobs, prefix, array_uuid, include_eval_hash=False, **kw):
        CURRENT_ARRAY["jobs"] = list(jobs)

    P.set(m, "gcp_utils", types.SimpleNamespace(
        get_gcp_batch_client=lambda *a, **k: object(), get_gcp_compute_client=lambda *a, **k: object(),
        list_jobs=lambda *a, **k: [], list_tasks=lambda *a, **k: [], get_task=get_task,
        batch_submit=batch_submit,
        get_compute_machine_type=lambda *a, **k: types.SimpleNamespace(memory_mb=16384, guest_cpus=4)))
    P.set(m, "write_array_job_scratch_files", write_array_job_scratch_files)
    P.set(m, "get_oneshot_command", lambda *a, **k: ["cmd"])
    P.set(m, "parse_job_result", lambda prefix, job: (42, True))
    P.set(m, "parse_job_error", lambda prefix, job: _fake_error())
    interval = ["0.2", "1.0", "5.0"][ch.choice(3, "monitor-interval")]
    stale = ["0.05", "0.5", "3.0"][ch.choice(3, "stale-time")]
    cfg = Config({"ex": {"image": "img", "gcs_scratch": scratch, "project": "p", "region": "r",
                         "job_monitor_interval": interval, "job_stale_time": stale,
                         "code_package": "False",
                         "min_array_size": str(2 + ch.choice(3, "min-array")),
                         "max_array_size": "4"}})
    ex = m.GCPBatchExecutor("ex", scheduler=None, config=cfg["ex"])
    ex._scheduler = sched
    ex._docker_executor._scheduler = sched
    return ex, P.restore, float(interval) + float(stale)


# ---------------------------------------------------------------------------
# AWS Glue
# ---------------------------------------------------------------------------


def make_aws_glue(sim, ch, scratch: str, api: FakeBackendApi, sched: RecordingScheduler):
    import redun.executors.aws_glue as m
    from redun.config import Config

    P = Patcher()
    P.set(m, "threading", sim.threading_shim())
    P.set(m, "time", sim.time_shim())

    class Exc(Exception):
        pass

    client = types.SimpleNamespace(exceptions=types.SimpleNamespace(
        ConcurrentRunsExceededException=Exc, ResourceNumberLimitExceededException=Exc))
    P.set(m, "aws_utils", types.SimpleNamespace(
        get_aws_client=lambda *a, **k: client, get_default_region=lambda: "us-west-2",
        DEFAULT_AWS_REGION="us-west-2"))

    def submit_glue_job(job, a_task, **kw):
        if ch.coin(0.15, "glue-busy"):
            raise Exc("too many concurrent runs")
        return {"JobRunId": api.submit(job)}

    def glue_describe_jobs(ids, glue_job_name=None, aws_region=None):
        for ext in ids:
            st = api.poll(ext)
            yield {"Id": ext, "JobRunState": {None: "RUNNING", "SUCCEEDED": "SUCCEEDED",
                                             "FAILED": "FAILED"}[st], "LogGroupName": "lg"}

    P.set(m, "submit_glue_job", submit_glue_job)
    P.set(m, "glue_describe_jobs", glue_describe_jobs)
    P.set(m, "parse_job_result", lambda prefix, job: (42, True))
    P.set(m, "get_job_insight_traceback", lambda **k: [])
    interval = ["0.2", "1.0", "5.0"][ch.choice(3, "monitor-interval")]
    retry = ["0.3", "2.0"][ch.choice(2, "retry-interval")]
    cfg = Config({"ex": {"s3_scratch": scratch, "role": "r", "job_monitor_interval": interval,
                         "job_retry_interval": retry, "code_package": "False",
                         "aws_region": "us-west-2"}})
    ex = m.AWSGlueExecutor("ex", scheduler=None, config=cfg["ex"])
    ex._scheduler = sched
    ex.glue_job_name = "gluejob"
    ex.redun_zip_location = "zip"
    ex.code_file = object()
    ex.get_jobs = lambda statuses=None: iter([])
    return ex, P.restore, float(interval) + float(retry)


EXECUTORS = {"docker": make_docker, "aws_batch": make_aws_batch, "k8s": make_k8s,
             "gcp_batch": make_gcp_batch, "aws_glue": make_aws_glue}


class C10(Check):
    PROPERTY = "C10"
    RULE = (
        "a submitting thread hands up to 6 jobs to the real executor object at simulator-chosen "
        "virtual times (bursts, and gaps longer than the monitor interval so that the monitor "
        "drains and exits in between); the real monitor thread polls an in-process fake service; "
        "both are real threads scheduled one at a time with pre-emption at line granularity inside "
        "the executor module (PCT-style <= 3 pre-emptions, stress mode, scheduling-latency "
        "fault); a case is (executor, job stream, schedule); non-trivial = a pre-emption or "
        "latency fault was taken"
    )
    ASSUMPTIONS = [
        "pre-emption is modelled at line granularity inside the executor module; the fake service "
        "completes each job after 0-2 polls",
        "the scheduler is a recording stub (done_job / reject_job / log)",
    ]
    COMPONENTS_REAL = ["DockerExecutor._submit/_start/_monitor/_process_job_status/stop",
                       "AWSBatchExecutor._submit/_submit_jobs/_submit_single_job/_submit_array_job/"
                       "_start/_monitor/_process_job_status/stop with its real JobArrayer"]
    COMPONENTS_STUB = ["thread scheduling and time: ThreadSim", "docker CLI / scratch files: fake "
                       "submit_task, iter_job_status, parse_job_result, parse_job_error",
                       "Scheduler: recording stub"]
    EXPECTED_PROBES = ["preemptions_taken", "monitor_restarts", "jobs_reported"]
    QUICK_SECONDS = 35.0

    def setup(self) -> None:
        logging.disable(logging.CRITICAL)
        import redun.executors.aws_batch as ab
        import redun.executors.aws_glue as ag
        import redun.executors.docker as d
        import redun.executors.gcp_batch as gb
        import redun.executors.k8s as k8
        import redun.job_array as ja

        threadsim.trace_modules([(d, "line"), (ab, "line"), (ja, "line"), (k8, "line"),
                                 (gb, "line"), (ag, "line")])

    def run_one(self, ch: Choices) -> RunOutcome:
        out = RunOutcome()
        kinds = [k for k in EXECUTORS if not os.environ.get("VERIF_C10_ONLY")
                 or k in os.environ["VERIF_C10_ONLY"].split(",")]
        kind = kinds[ch.choice(len(kinds), "executor")]
        sim = threadsim.ThreadSim(ch, horizon=400)
        scratch = os.path.join(schedsim.scratch_dir(), "exscratch")
        os.makedirs(scratch, exist_ok=True)
        sched = RecordingScheduler(sim, scratch)
        api = FakeBackendApi(ch, sim)
        ex, restore, interval = EXECUTORS[kind](sim, ch, scratch, api, sched)
        njobs = 1 + ch.choice(6, "njobs")
        jobs = [FakeJob(i) for i in range(njobs)]
        gaps = [[0.0, 0.0, 0.05, interval * 0.5, interval, interval * 3][ch.choice(6, "gap")]
                for _ in jobs]
        threadsim.activate(sim)
        stuck: list[str] = []
        starts = 0
        try:
            for job, gap in zip(jobs, gaps):
                if gap:
                    sim.sleep(gap)
                ex.submit(job)
                sim.event("submitted", job.id)
            # quiescence: give the monitor ample virtual time after the last submission
            sim.wait_quiescent(interval * 12 + 5)
            reported_before_stop = list(sched.reports)
            ex.stop()
        except threadsim.SimThreadExit:
            reported_before_stop = list(sched.reports)
        finally:
            threadsim.activate(None)
            stuck = sim.shutdown()
            restore()
        starts = sum(1 for e in sim.log if e[2] == "thread-start")
        out.steps = sim.events
        out.sim_time = sim.now - 1000.0
        out.digest = sim.digest()
        out.key = out.digest
        out.nontrivial = (sim.preemptions + sim.latency_faults) > 0
        out.probe("preemptions_taken", sim.preemptions)
        out.fault("preemption", sim.preemptions)
        out.fault("scheduling_latency", sim.latency_faults)
        out.probe("monitor_restarts", max(0, starts - 1))
        counts: dict = {}
        for r in reported_before_stop:
            counts[r[1]] = counts.get(r[1], 0) + 1
        out.probe("jobs_reported", sum(1 for j in jobs if counts.get(j.id)))
        params = {"executor": kind, "interval": interval, "gaps": gaps, "mode": sim.mode,
                  "latency": sim.latency}
        lost = [j.id for j in jobs if not counts.get(j.id)]
        twice = [j.id for j in jobs if counts.get(j.id, 0) > 1]
        if counts.get(None):
            msg = [r for r in reported_before_stop if r[1] is None][0]
            out.violate("C10.no_workflow_error", f"{kind}:reject_job(None):{msg[2][:40]}",
                        {"report": msg, "params": params})
        if lost:
            out.violate("C10.every_job_reported", f"{kind}:job-lost",
                        {"lost": lost, "params": params,
                         "events": [e[2:] for e in sim.log[-40:]]})
        if twice:
            out.violate("C10.every_job_reported", f"{kind}:job-reported-twice",
                        {"jobs": twice, "params": params})
        if stuck:
            out.violate("C10.no_thread_stuck", f"{kind}:thread-stuck", {"threads": stuck})
        out.sample = {"params": params, "jobs": [j.id for j in jobs],
                      "reports": reported_before_stop[:12], "events": [e[2:] for e in sim.log[:50]]}
        return out


CHECK = C10
