"""C10 Remote-executor monitors never lose a submitted job (engine C, thread simulation)."""

from __future__ import annotations

import logging
import os
import types
from typing import Any, Optional

from simkit import schedsim, threadsim
from simkit.choices import Choices
from simkit.runner import Check, RunOutcome


class FakeTask:
    def __init__(self, name: str):
        self.fullname = name
        self.name = name
        self.namespace = "ns"
        self.script = False
        self.load_module = "fake"
        self.hash = "h" + name

    def get_task_option(self, key, default=None):
        return default


class FakeJob:
    def __init__(self, jid: int):
        self.id = f"job{jid}"
        self.task = FakeTask("ns.t")
        self.args = ((), {})
        self.eval_hash = f"eval{jid}"
        self.args_hash = f"args{jid}"
        self.status = "RUNNING"

    def get_options(self) -> dict:
        return {}

    def get_option(self, key, default=None, as_type=None):
        return default

    def __repr__(self) -> str:
        return self.id


class RecordingScheduler:
    """Stands in for the Scheduler: records what the executor reports."""

    def __init__(self, sim: threadsim.ThreadSim, configdir: str):
        self.sim = sim
        self.reports: list[tuple] = []
        self.config = types.SimpleNamespace(configdir=configdir, get=lambda *a, **k: {})
        self.logger = None

    def done_job(self, job, result, job_tags=[]):
        self.reports.append(("done", job.id if job is not None else None))
        self.sim.event("done_job", job.id if job is not None else None)

    def reject_job(self, job, error, error_traceback=None, job_tags=[]):
        self.reports.append(("reject", job.id if job is not None else None, repr(error)[:120]))
        self.sim.event("reject_job", job.id if job is not None else None, type(error).__name__)

    def log(self, *a, **k):
        pass

    def add_job_tags(self, job, tags):
        pass


class FakeBackendApi:
    """The container / cloud service: a job completes after a number of polls."""

    def __init__(self, ch: Choices, sim: threadsim.ThreadSim):
        self.ch = ch
        self.sim = sim
        self.jobs: dict[str, dict] = {}
        self.counter = 0

    def submit(self, job) -> str:
        self.counter += 1
        ext = f"ext{self.counter}"
        self.jobs[ext] = {"job": job, "polls_left": self.ch.choice(3, "polls"),
                          "fail": self.ch.coin(0.2, "job-fails")}
        self.sim.event("api-submit", job.id, ext)
        return ext

    def poll(self, ext: str) -> Optional[str]:
        st = self.jobs[ext]
        if st["polls_left"] > 0:
            st["polls_left"] -= 1
            return None
        return "FAILED" if st["fail"] else "SUCCEEDED"


# ---------------------------------------------------------------------------
# Docker
# ---------------------------------------------------------------------------


def make_docker(sim, ch, scratch: str, api: FakeBackendApi, sched: RecordingScheduler):
    import redun.executors.docker as m
    from redun.config import Config

    saved = {k: getattr(m, k) for k in ("threading", "time", "submit_task", "iter_job_status",
                                        "parse_job_result", "parse_job_error")}
    m.threading = sim.threading_shim()
    m.time = sim.time_shim()

    def submit_task(image, scratch_prefix, job, task, args=(), kwargs={}, job_options={},
                    code_file=None, **kw):
        return {"jobId": api.submit(job)}

    def iter_job_status(scratch_prefix, job_id2job):
        for ext, job in job_id2job.items():
            st = api.poll(ext)
            if st is not None:
                yield {"jobId": ext, "status": st, "logs": "log"}

    def parse_job_result(scratch_prefix, job):
        return 42, True

    def parse_job_error(scratch_prefix, job):
        from redun.utils import pickle_dumps  # noqa: F401
        from redun.scheduler import Traceback

        err = ValueError("remote failure")
        return err, Traceback.from_error(err)

    m.submit_task = submit_task
    m.iter_job_status = iter_job_status
    m.parse_job_result = parse_job_result
    m.parse_job_error = parse_job_error
    interval = ["0.2", "1.0", "5.0"][ch.choice(3, "monitor-interval")]
    cfg = Config({"ex": {"image": "img", "scratch": scratch, "job_monitor_interval": interval,
                         "code_package": "False"}})
    ex = m.DockerExecutor("ex", scheduler=None, config=cfg["ex"])
    ex._scheduler = sched
    ex._default_job_options["volumes"] = []

    def restore():
        for k, v in saved.items():
            setattr(m, k, v)

    return ex, restore, float(interval)


EXECUTORS = {"docker": make_docker}


class C10(Check):
    PROPERTY = "C10"
    RULE = (
        "a submitting thread hands up to 6 jobs to the real executor object at simulator-chosen "
        "virtual times (bursts, and gaps longer than the monitor interval so that the monitor "
        "drains and exits in between); the real monitor thread polls an in-process fake service; "
        "both are real threads scheduled one at a time with pre-emption at line granularity inside "
        "the executor module (PCT-style <= 3 pre-emptions, stress mode, scheduling-latency "
        "fault); a case is (executor, job stream, schedule); non-trivial = a pre-emption or "
        "latency fault was taken"
    )
    ASSUMPTIONS = [
        "pre-emption is modelled at line granularity inside the executor module; the fake service "
        "completes each job after 0-2 polls",
        "the scheduler is a recording stub (done_job / reject_job / log)",
    ]
    COMPONENTS_REAL = ["DockerExecutor._submit/_start/_monitor/_process_job_status/stop"]
    COMPONENTS_STUB = ["thread scheduling and time: ThreadSim", "docker CLI / scratch files: fake "
                       "submit_task, iter_job_status, parse_job_result, parse_job_error",
                       "Scheduler: recording stub"]
    EXPECTED_PROBES = ["preemptions_taken", "monitor_restarts", "jobs_reported"]
    QUICK_SECONDS = 35.0

    def setup(self) -> None:
        logging.disable(logging.CRITICAL)
        import redun.executors.docker as d

        threadsim.trace_modules([(d, "line")])

    def run_one(self, ch: Choices) -> RunOutcome:
        out = RunOutcome()
        kind = list(EXECUTORS)[ch.choice(len(EXECUTORS), "executor")]
        sim = threadsim.ThreadSim(ch, horizon=400)
        scratch = os.path.join(schedsim.scratch_dir(), "exscratch")
        os.makedirs(scratch, exist_ok=True)
        sched = RecordingScheduler(sim, scratch)
        api = FakeBackendApi(ch, sim)
        ex, restore, interval = EXECUTORS[kind](sim, ch, scratch, api, sched)
        njobs = 1 + ch.choice(6, "njobs")
        jobs = [FakeJob(i) for i in range(njobs)]
        gaps = [[0.0, 0.0, 0.05, interval * 0.5, interval, interval * 3][ch.choice(6, "gap")]
                for _ in jobs]
        threadsim.activate(sim)
        stuck: list[str] = []
        starts = 0
        try:
            for job, gap in zip(jobs, gaps):
                if gap:
                    sim.sleep(gap)
                ex.submit(job)
                sim.event("submitted", job.id)
            # quiescence: give the monitor ample virtual time after the last submission
            sim.wait_quiescent(interval * 12 + 5)
            reported_before_stop = list(sched.reports)
            ex.stop()
        except threadsim.SimThreadExit:
            reported_before_stop = list(sched.reports)
        finally:
            threadsim.activate(None)
            stuck = sim.shutdown()
            restore()
        starts = sum(1 for e in sim.log if e[2] == "thread-start")
        out.steps = sim.events
        out.sim_time = sim.now - 1000.0
        out.digest = sim.digest()
        out.key = out.digest
        out.nontrivial = (sim.preemptions + sim.latency_faults) > 0
        out.probe("preemptions_taken", sim.preemptions)
        out.fault("preemption", sim.preemptions)
        out.fault("scheduling_latency", sim.latency_faults)
        out.probe("monitor_restarts", max(0, starts - 1))
        counts: dict = {}
        for r in reported_before_stop:
            counts[r[1]] = counts.get(r[1], 0) + 1
        out.probe("jobs_reported", sum(1 for j in jobs if counts.get(j.id)))
        params = {"executor": kind, "interval": interval, "gaps": gaps, "mode": sim.mode,
                  "latency": sim.latency}
        lost = [j.id for j in jobs if not counts.get(j.id)]
        twice = [j.id for j in jobs if counts.get(j.id, 0) > 1]
        if counts.get(None):
            msg = [r for r in reported_before_stop if r[1] is None][0]
            out.violate("C10.no_workflow_error", f"{kind}:reject_job(None):{msg[2][:40]}",
                        {"report": msg, "params": params})
        if lost:
            out.violate("C10.every_job_reported", f"{kind}:job-lost",
                        {"lost": lost, "params": params,
                         "events": [e[2:] for e in sim.log[-40:]]})
        if twice:
            out.violate("C10.every_job_reported", f"{kind}:job-reported-twice",
                        {"jobs": twice, "params": params})
        if stuck:
            out.violate("C10.no_thread_stuck", f"{kind}:thread-stuck", {"threads": stuck})
        out.sample = {"params": params, "jobs": [j.id for j in jobs],
                      "reports": reported_before_stop[:12], "events": [e[2:] for e in sim.log[:50]]}
        return out


CHECK = C10
