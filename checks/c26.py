"""C26 Context is inherited and overridden as documented (engine A)."""

from __future__ import annotations

from simkit import enginea, refinterp
from simkit.acheck import EngineACheck
from simkit.choices import Choices
from simkit.progs import ALL_FEATURES, Gen, GenConfig
from simkit.runner import RunOutcome


def gen_root_contexts(ch: Choices) -> tuple[dict, dict]:
    def one(tag):
        out: dict = {}
        if ch.coin(0.5, tag + "-x"):
            out["x"] = 20 + ch.choice(3, tag + "-xv")
        if ch.coin(0.4, tag + "-n"):
            out["n"] = {"p": 30 + ch.choice(3, tag + "-np")}
            if ch.coin(0.5, tag + "-nq"):
                out["n"]["q"] = 40 + ch.choice(3, tag + "-nqv")
        if ch.coin(0.2, tag + "-m"):
            out["m"] = {"r": {"s": 50 + ch.choice(3, tag + "-ms")}}
        if tag == "run" and ch.coin(0.3, tag + "-falsy"):
            # the run() context overrides the configured one also with falsy values
            key = ["x", "n", "m"][ch.choice(3, tag + "-falsy-key")]
            fv = [0, False, None, ""][ch.choice(4, tag + "-falsy-val")]
            if key == "x" or ch.coin(0.3, tag + "-falsy-whole"):
                out[key] = fv
            elif key == "n":
                out["n"] = {"p": fv}
            else:
                out["m"] = {"r": {"s": fv}}
        return out

    return one("cfg"), one("run")


class C26(EngineACheck):
    PROPERTY = "C26"
    RULE = (
        "generated job trees with nested update_context overrides (nested mappings), a configured "
        "context plus a context passed to run(), and get_context(path, default) over dotted paths "
        "(missing segment, non-mapping segment) in task bodies and in default arguments; every call "
        "carries a unique literal argument so that no two calls can share a cache entry; the "
        "outcome under a seeded schedule must equal the reference interpreter's; a case is "
        "(program, contexts, schedule signature); non-trivial = the program reads the context "
        "under at least one override"
    )
    ASSUMPTIONS = EngineACheck.ASSUMPTIONS + [
        "the schedule dimension is incidental for this property (it quantifies over programs); it is "
        "varied because get_context only exists inside a running scheduler",
    ]
    EXPECTED_PROBES = ["programs_reading_context", "programs_with_overrides", "default_arg_getctx"]
    QUICK_SECONDS = 40.0

    def run_one(self, ch: Choices) -> RunOutcome:
        from simkit.progs import walk

        out = RunOutcome()
        feats = (set(ALL_FEATURES) | {"ctx"}) - {"errors", "catch", "catchall", "forkjoin"}
        cfg = GenConfig(features=feats, ctx_mode="unique",
                        modes=("thread", "thread", "process", "async"), max_tasks=7, p_ctx=0.45)
        prog = Gen(ch, cfg).generate()
        # "Echo": where a task calls, under an override, a task whose defaulted parameter reads the
        # context, the caller also reads the very same get_context(path, default) itself -- two
        # equal expressions met by one job, to be evaluated under two different contexts.
        for t in prog.tasks:
            if t.is_async or t.ret != "int" or t.leaf or "ops" not in prog.features:
                continue
            for n in list(walk(t.body)):
                if n[0] != "call" or not n[4].get("ctx"):
                    continue
                callee = prog.tasks[n[1]]
                supplied = {p[0] for p in callee.params[: len(n[2])]} | {k for k, _ in n[3]}
                echoes = [p[2] for p in callee.params
                          if p[2] is not None and p[2][0] == "getctx" and p[0] not in supplied]
                if echoes and ch.coin(0.7, "echo-default-getctx"):
                    t.body = ("op", "+", t.body, echoes[0])
                    out.probe("echoed_default_reads")
                    break
        cfg_ctx, run_ctx = gen_root_contexts(ch)
        root = refinterp.merge_dicts([cfg_ctx, run_ctx])
        nodes = [n for t in prog.tasks for n in walk(t.body)] + \
                [n for t in prog.tasks for _, node in t.awaits for n in walk(node)]
        reads = sum(1 for n in nodes if n[0] == "getctx")
        dflt = sum(1 for t in prog.tasks for p in t.params if p[2] is not None and p[2][0] == "getctx")
        overrides = sum(1 for n in nodes if n[0] == "call" and n[4].get("ctx"))
        if reads or dflt:
            out.probe("programs_reading_context")
        if overrides:
            out.probe("programs_with_overrides")
        if dflt:
            out.probe("default_arg_getctx")
        try:
            ref = refinterp.Ref(prog, context=root).run()
        except (refinterp.Loose, RecursionError):
            return out
        res = enginea.simulate(ch, prog, context=cfg_ctx, run_kwargs={"context": run_ctx})
        w = res.world
        self.fill(out, w, prog, extra_key=repr(root))
        out.nontrivial = bool((reads or dflt) and overrides)
        if res.outcome[0] == "abort":
            out.violate("C26.terminates", res.outcome[1], {})
        else:
            key = refinterp.okey(res.outcome)
            if key not in ref.keys():
                out.violate("C26.value_equals_reference",
                            "value" if res.outcome[0] == "v" else "error:" + type(res.outcome[1]).__name__,
                            {"real": repr(key)[:300], "reference": sorted(map(repr, ref.keys()))[:3],
                             "config_context": cfg_ctx, "run_context": run_ctx})
        out.sample = self.sample(prog, w, res, note={"config_context": cfg_ctx, "run_context": run_ctx})
        return out


CHECK = C26
